package main

import (
	"go/token"
	"go/types"
	"strings"

	"golang.org/x/tools/go/ssa"
)

func init() {
	register(&propSpec{
		id: "C19", title: "A failed reload never takes the dev server down", run: runC19,
		notCovered:  "fsnotify/polling behaviour, debounce timing, requests in flight while the handler is swapped, what a module must contain to be worth serving beyond being non-empty",
		assumptions: []string{"the dev server swap is hotReloadManager.startServer; the library reload path is hotreload.ReloadManager.handleChanges"},
	})
}

const hotPkg = "pkg/hotreload"
const hotPath = modPath + "/pkg/hotreload"

func runC19(c *Ctx) {
	c.rule("C19-R9", "STALE/ISOL: code that runs while a request is served (the route-handler closures built in cmd/glyph) reads no package-level variable that route setup assigns on every (re)load: such a variable holds the state of the module that was loaded last - including one whose reload was then rejected - not of the version the running server was built from")
	{
		// globals assigned outside init in cmd/glyph
		assigned := map[*ssa.Global]*ssa.Function{}
		for _, fn := range c.srcFuncs(glyphCmd) {
			if n := topParent(fn).Name(); n == "init" || strings.HasPrefix(n, "init#") || n == "main" {
				continue
			}
			eachInstr(fn, func(_ *ssa.BasicBlock, _ int, ins ssa.Instruction) {
				if st, ok := ins.(*ssa.Store); ok {
					if g, ok := st.Addr.(*ssa.Global); ok {
						assigned[g] = fn
					}
				}
			})
		}
		// request-time closures: anonymous functions of the handler constructors whose signature is a route handler (ctx) error
		nCl := 0
		for _, name := range []string{"createCompiledRouteHandler", "registerInterpretedRoute", "registerCompiledRoute", "createHandler"} {
			f := c.fn(glyphCmd, name)
			if f == nil {
				continue
			}
			for _, cl := range innerClosures(f) {
				nCl++
				k := 0
				seen := map[*ssa.Function]bool{}
				var visit func(g *ssa.Function, d int)
				visit = func(g *ssa.Function, d int) {
					if g == nil || seen[g] || d > 2 || len(g.Blocks) == 0 {
						return
					}
					seen[g] = true
					eachInstr(g, func(_ *ssa.BasicBlock, _ int, ins ssa.Instruction) {
						switch x := ins.(type) {
						case *ssa.UnOp:
							if gl, ok := x.X.(*ssa.Global); ok && x.Op == token.MUL {
								if setter := assigned[gl]; setter != nil && gl.Pkg.Pkg.Path() == modPath+"/"+glyphCmd {
									k++
									c.ob("C19-R9", fnKey(cl)+"#request-time-read-of-reloadable-global:"+gl.Name(), x.Pos(), false, "while serving a request this handler reads package variable "+gl.Name()+", which "+fnKey(setter)+" assigns on every route setup: after a rejected reload the running server works with the rejected module's "+gl.Name())
								}
							}
						case *ssa.Call:
							if sf := staticFn(x); sf != nil && sf.Pkg != nil && sf.Pkg.Pkg.Path() == modPath+"/"+glyphCmd {
								visit(sf, d+1)
							}
						}
					})
				}
				visit(cl, 0)
				if k == 0 {
					c.ob("C19-R9", fnKey(cl)+"#reads-no-reloadable-global", cl.Pos(), true, "")
				}
			}
		}
		if nCl < 2 {
			c.undecided("C19-R9: only %d request-time closures found", nCl)
		}
	}
	c.rule("C19-R8", "CLS: the predicate by which setupRoutes tells a semantically invalid program (reject the edit, keep the running version) from an unsupported construct (fall back to the interpreter) classifies wrapped errors too: every func(error) bool of pkg/compiler that decides by the error's concrete type uses errors.As/errors.Is, not a type assertion on the parameter, because the compiler wraps errors of nested constructs with %w")
	{
		wraps := 0
		for _, fn := range c.srcFuncs(compilerPkg) {
			eachCall(fn, func(call ssa.CallInstruction) {
				if callName(call) == "fmt.Errorf" {
					if f, ok := constString(call.Common().Args[0]); ok && strings.Contains(f, "%w") {
						wraps++
					}
				}
			})
		}
		n := 0
		for _, fn := range c.srcFuncs(compilerPkg) {
			sig := fn.Signature
			if fn.Parent() != nil || sig.Recv() != nil || sig.Params().Len() != 1 || sig.Results().Len() != 1 || !isErrorType(sig.Params().At(0).Type()) {
				continue
			}
			if bt, ok := sig.Results().At(0).Type().Underlying().(*types.Basic); !ok || bt.Kind() != types.Bool {
				continue
			}
			n++
			asserts, unwraps := false, false
			eachInstr(fn, func(_ *ssa.BasicBlock, _ int, ins ssa.Instruction) {
				switch x := ins.(type) {
				case *ssa.TypeAssert:
					if x.X == ssa.Value(fn.Params[0]) {
						asserts = true
					}
				case *ssa.Call:
					if n := callName(x); n == "errors.As" || n == "errors.Is" {
						unwraps = true
					}
				}
			})
			c.ob("C19-R8", fnKey(fn)+"#classifies-wrapped-errors", fn.Pos(), !asserts || unwraps || wraps == 0, "this predicate decides by a type assertion on the error it is given, while pkg/compiler wraps errors of nested constructs with %w ("+itoa(wraps)+" sites): a semantic error inside a loop body is not recognised, setupRoutes falls back to the interpreter instead of rejecting the edit, and under `glyph dev` the broken version replaces the running one")
		}
		c.Sites["C19-R8#error-predicates"] = n
		if n < 1 {
			c.undecided("C19-R8: no func(error) bool found in pkg/compiler")
		}
	}
	c.rule("C19-R7", "MPT: in the file-watch loop of `glyph dev`, every write/create event of the watched file (re)arms a reload that runs after the event: from the event test's accepting edge every way back to the loop head passes time.AfterFunc / Timer.Reset. An event that is absorbed because a reload is 'already pending' can belong to an edit saved after that reload read the file - it would never take effect")
	if wf := c.mustFn("C19-R7", glyphCmd, "hotReloadManager.watchForChanges"); wf != nil {
		n := 0
		for _, b := range wf.Blocks {
			iff := ifOf(b)
			if iff == nil || !derivesFrom(iff.Cond, func(v ssa.Value) bool {
				switch x := v.(type) {
				case *ssa.Field:
					return x.X.Type().Underlying().(*types.Struct).Field(x.Field).Name() == "Op"
				case *ssa.FieldAddr:
					return x.X.Type().Underlying().(*types.Pointer).Elem().Underlying().(*types.Struct).Field(x.Field).Name() == "Op"
				}
				return false
			}) {
				continue
			}
			bo, ok := iff.Cond.(*ssa.BinOp)
			if !ok {
				continue
			}
			acc := 0 // `op & mask != 0` accepts on the true edge, `== 0` on the false edge
			if bo.Op == token.EQL {
				acc = 1
			}
			n++
			var head *ssa.BasicBlock
			for _, lp := range naturalLoops(wf) {
				if lp.body[b] && (head == nil || len(lp.body) > 0) {
					head = lp.head
				}
			}
			if head == nil {
				c.undecided("C19-R7: the event test is not inside a loop")
				continue
			}
			q := &pathQuery{fn: wf, target: func(x ssa.Instruction) bool { return x.Block() == head }, stop: func(x ssa.Instruction) bool {
				return isCallTo(x, "time.AfterFunc", "time.Timer.Reset", "time.NewTimer")
			}}
			hit, path := q.from(b.Succs[acc], 0)
			c.ob("C19-R7", fnKey(wf)+"#every-change-event-schedules-a-reload-"+itoa(n), iff.Pos(), hit == nil, "a write/create event of the watched file can return to the event loop without (re)arming the reload timer: the edit it belongs to is served only if some later event happens to trigger a reload", c.blockPath(path)...)
		}
		if n == 0 {
			c.undecided("C19-R7: no test of the fsnotify event's Op found in watchForChanges")
		}
	}
	// what the debounce timer runs is the reload, unconditionally: a callback that may return without reloading (a
	// sequence-number or "already pending" test) drops the edit whose event armed it
	if wf := c.fn(glyphCmd, "hotReloadManager.watchForChanges"); wf != nil {
		n := 0
		eachInstr(wf, func(_ *ssa.BasicBlock, _ int, ins ssa.Instruction) {
			call, ok := ins.(*ssa.Call)
			if !ok || callName(call) != "time.AfterFunc" || len(call.Call.Args) < 2 {
				return
			}
			n++
			isReload := func(x ssa.Instruction) bool {
				ci, ok := x.(ssa.CallInstruction)
				return ok && strings.HasSuffix(callName(ci), "hotReloadManager.reload")
			}
			okCB := false
			detail := "the function handed to time.AfterFunc could not be resolved"
			var path []*ssa.BasicBlock
			switch f := call.Call.Args[1].(type) {
			case *ssa.MakeClosure:
				cf := f.Fn.(*ssa.Function)
				if strings.HasSuffix(cf.Name(), "reload$bound") || strings.Contains(cf.Name(), "reload$bound") {
					okCB = true
					break
				}
				q := &pathQuery{fn: cf, target: isReturn, stop: isReload}
				hit, p := q.fromEntry()
				okCB, path = hit == nil, p
				detail = "the debounce timer's callback can return without calling reload(): the event that armed this timer - possibly the last event of a save - does not lead to a reload, and nothing re-arms"
			case *ssa.Function:
				q := &pathQuery{fn: f, target: isReturn, stop: isReload}
				hit, p := q.fromEntry()
				okCB, path = hit == nil || strings.HasSuffix(f.Name(), "reload"), p
			}
			c.ob("C19-R7", fnKey(wf)+"#debounce-callback-always-reloads-"+itoa(n), call.Pos(), okCB, detail, c.blockPath(path)...)
		})
	}

	c.rule("C19-R15", "ERR/def-use: a change that was seen is a change that is reported: a function of pkg/hotreload that both answers with the changes it found and records what it has seen (it returns a list and updates the watcher's stored hashes / stamps) consumes the change - so every call of it uses its answer. A caller that only asks `did anything change again?` and drops the list has swallowed the final content of a save: the next poll sees nothing new and no reload ever happens for it")
	{
		hrPkg := "pkg/hotreload"
		n := 0
		consuming := map[*ssa.Function]bool{}
		for _, fn := range c.srcFuncs(hrPkg) {
			if fn.Signature.Results().Len() != 1 {
				continue
			}
			if _, isSlice := fn.Signature.Results().At(0).Type().Underlying().(*types.Slice); !isSlice || fn.Signature.Recv() == nil {
				continue
			}
			records := false
			for _, body := range withAnon(fn) { // the walk callback records as well
				eachInstr(body, func(_ *ssa.BasicBlock, _ int, ins ssa.Instruction) {
					if mu, ok := ins.(*ssa.MapUpdate); ok {
						if derivesFrom(mu.Map, func(v ssa.Value) bool { _, _, isField := fieldOf(v); return isField }) {
							records = true
						}
					}
				})
			}
			eachInstr(fn, func(_ *ssa.BasicBlock, _ int, ins ssa.Instruction) {
				switch x := ins.(type) {
				case *ssa.MapUpdate:
					if nt, _, ok := fieldOf(stripLoad(x.Map)); ok && nt != nil {
						records = true
					} else if u, ok := x.Map.(*ssa.UnOp); ok {
						if _, _, ok := fieldOf(u.X); ok {
							records = true
						}
					}
				case *ssa.Store:
					if _, _, ok := fieldOf(x.Addr); ok && !isFreshAlloc(x.Addr) {
						records = true
					}
				}
			})
			if records {
				consuming[fn] = true
			}
		}
		for _, fn := range c.srcFuncs(hrPkg) {
			k := 0
			eachInstr(fn, func(_ *ssa.BasicBlock, _ int, ins ssa.Instruction) {
				cl, ok := ins.(*ssa.Call)
				if !ok || !consuming[staticFn(cl)] {
					return
				}
				k++
				n++
				// used: the list goes somewhere - asking only for its length (or whether it is nil) drops it
				used := false
				if rs := cl.Referrers(); rs != nil {
					for _, r := range *rs {
						switch y := r.(type) {
						case *ssa.Call:
							if b, isB := y.Call.Value.(*ssa.Builtin); isB && (b.Name() == "len" || b.Name() == "cap") {
								continue
							}
							used = true
						case *ssa.BinOp:
							continue
						case *ssa.DebugRef:
							continue
						default:
							used = true
						}
					}
				}
				c.ob("C19-R15", fnKey(fn)+"#detected-changes-are-used-"+itoa(k), cl.Pos(), used, "the answer of "+staticFn(cl).Name()+" is dropped, but the call has recorded the new state of the files it reported: the change it saw is never notified, the next poll finds nothing new, and the last content of a save is never reloaded")
			})
		}
		c.Sites["C19-R15#consuming-calls"] = n
		c.ob("C19-R15", hrPkg+"#consuming-calls-examined", token.NoPos, n > 0, "no call of a change-detecting function found in pkg/hotreload")
	}

	c.rule("C19-R14", "ORD: a failed reload leaves the running version as it was: in the functions of cmd/glyph/server.go that build a version (they can return an error), nothing the running version still uses is shut down or closed (a call of Shutdown / Close / Stop on a value loaded from the manager's own fields) at a point from which an error return is still reachable - the reload can still fail late (a missing static directory, a duplicate pattern), the old handler keeps serving, and its WebSocket hub is gone: connected clients are cut and new ones hang")
	{
		n := 0
		for _, fn := range c.srcFuncs(glyphCmd) {
			if !strings.HasSuffix(c.Fset.Position(fn.Pos()).Filename, "/server.go") || fn.Signature.Results().Len() == 0 {
				continue
			}
			last := fn.Signature.Results().At(fn.Signature.Results().Len() - 1).Type()
			if !types.Identical(last, types.Universe.Lookup("error").Type()) {
				continue
			}
			// a function that builds a version: it sets the routes up (the process's own shutdown path is not one)
			if !reachesInstr(fn, func(x ssa.Instruction) bool { return isCallTo(x, modPath+"/cmd/glyph.setupRoutes") }, 0, map[*ssa.Function]bool{}) {
				continue
			}
			k := 0
			eachInstr(fn, func(_ *ssa.BasicBlock, _ int, ins ssa.Instruction) {
				cl, ok := ins.(*ssa.Call)
				if !ok {
					return
				}
				name := ""
				var recv ssa.Value
				if cl.Call.IsInvoke() {
					name, recv = cl.Call.Method.Name(), cl.Call.Value
				} else if sf := cl.Call.StaticCallee(); sf != nil && sf.Signature.Recv() != nil && len(cl.Call.Args) > 0 {
					name, recv = sf.Name(), cl.Call.Args[0]
				}
				if name != "Shutdown" && name != "Close" && name != "Stop" {
					return
				}
				// the receiver is something the manager holds (the running version's), not something built in this call
				held := derivesFrom(recv, func(v ssa.Value) bool {
					u, ok := v.(*ssa.UnOp)
					if !ok || u.Op != token.MUL {
						return false
					}
					nt, _, ok := fieldOf(u.X)
					return ok && nt != nil && nt.Obj().Pkg() != nil && nt.Obj().Pkg().Path() == modPath+"/cmd/glyph"
				})
				if !held {
					return
				}
				k++
				n++
				q := &pathQuery{fn: fn, target: func(x ssa.Instruction) bool {
					r, ok := x.(*ssa.Return)
					return ok && len(r.Results) > 0 && !isNilConst(stripConv(retVals(r)[len(r.Results)-1]))
				}}
				hit, path := q.after(ins)
				c.ob("C19-R14", fnKey(fn)+"#running-version-retired-only-after-the-last-fallible-step-"+itoa(k), cl.Pos(), hit == nil, "something the running version uses is shut down while this reload can still fail: after a late failure the old handler keeps serving without it (its WebSocket hub: connected clients are cut with 1006, new ones get the upgrade and then hang)", c.blockPath(path)...)
			})
		}
		c.Sites["C19-R14#retire-calls"] = n
		c.ob("C19-R14", glyphCmd+"#retire-calls-examined", token.NoPos, true, "")
	}

	c.rule("C19-R13", "LCK: the dev server swaps its handler while requests are in flight, and some requests never end (the live-reload event stream of an open browser tab, a WebSocket): in cmd/glyph no mutex is held - not even shared - while a request is handed to the current handler (a call of http.Handler.ServeHTTP or of an http.HandlerFunc value). A reader lock held for the length of a request makes the next successful reload wait for ever for the writer lock, and every new request queue up behind that waiting writer")
	{
		e13 := newLck(c, &lckConfig{rule: "C19-R13", pkgs: []string{glyphCmd}, guards: nil})
		n := 0
		for _, fn := range c.srcFuncs(glyphCmd) {
			if !strings.HasSuffix(c.Fset.Position(fn.Pos()).Filename, "/server.go") {
				continue
			}
			var at map[ssa.Instruction]lockState
			k := 0
			eachInstr(fn, func(_ *ssa.BasicBlock, _ int, ins ssa.Instruction) {
				cl, ok := ins.(ssa.CallInstruction)
				if !ok {
					return
				}
				isServe := false
				cc := cl.Common()
				if cc.IsInvoke() && cc.Method.Name() == "ServeHTTP" {
					isServe = true
				}
				if !cc.IsInvoke() && typeIs(cc.Value.Type(), "net/http", "HandlerFunc") {
					isServe = true
				}
				if sf := cc.StaticCallee(); sf != nil && sf.Name() == "ServeHTTP" {
					isServe = true
				}
				if !isServe {
					return
				}
				if at == nil {
					at, _ = e13.analyse(fn)
				}
				n++
				k++
				held := ""
				for cls, m := range at[ins.(ssa.Instruction)] {
					if m > 0 {
						held = cls
					}
				}
				if _, isDefer := ins.(*ssa.Defer); isDefer {
					return
				}
				c.ob("C19-R13", fnKey(fn)+"#request-served-with-no-lock-held-"+itoa(k), ins.Pos(), held == "", "a request is handed to the current handler while "+held+" is held: a request that never ends (the /__livereload event stream, a WebSocket) keeps the lock, the next successful reload blocks on the writer side for ever, and every new request blocks behind the waiting writer")
			})
		}
		c.Sites["C19-R13#handler-invocations"] = n
		c.ob("C19-R13", glyphCmd+"#handler-invocations-examined", token.NoPos, n >= 1, "no handler invocation found in cmd/glyph/server.go: the handler swap is not where the rule expects it")
	}

	c.rule("C19-R6", "PAIR: every Lock/RLock in cmd/glyph and pkg/hotreload is released on every path to a return: a failed reload cannot leave the manager's mutex held and block all later reloads; REACQ: no method calls, while it holds its receiver's mutex, a method of the same receiver that acquires that mutex again (sync mutexes are not re-entrant; a second RLock blocks once a writer waits)")
	c.Sites["C19-R6#acquire-sites"] = lockReleaseAudit(c, "C19-R6", []string{glyphCmd, "pkg/hotreload"})
	c.floor("C19-R6", 6)
	c.rule("C19-R5", "STALE: nothing the dev server builds once per process (a sync.Once body in cmd/glyph, pkg/hotreload, pkg/server) is computed from a package variable that a reload assigns again (type definitions, route tables): a later valid edit would otherwise not take effect for that part")
	c.Sites["C19-R5#once-bodies"] = staleOnceAudit(c, "C19-R5", []string{glyphCmd, "pkg/hotreload", "pkg/server"})
	c.ob("C19-R5", glyphCmd+"#no-once-built-state-from-reloadable-variables", token.NoPos, true, "")
	c.rule("C19-R1", "ORD typestate on hotReloadManager.server: in startServer, after the running server's Shutdown is called no path returns a non-nil error and every path to return stores the new server into m.server — i.e. every fallible step (read, parse, route setup, static registration) happens before the old server is stopped")
	if ss := c.mustFn("C19-R1", glyphCmd, "hotReloadManager.startServer"); ss != nil {
		var shut []ssa.Instruction
		eachInstr(ss, func(_ *ssa.BasicBlock, _ int, ins ssa.Instruction) {
			if isCallTo(ins, "net/http.Server.Shutdown", "net/http.Server.Close") {
				shut = append(shut, ins)
			}
		})
		if len(shut) == 0 {
			c.info("C19-R1", "cmd/glyph.hotReloadManager.startServer#no-shutdown", ss.Pos(), "startServer does not stop a running server itself")
		}
		for i, sd := range shut {
			q := &pathQuery{fn: ss, target: func(x ssa.Instruction) bool {
				r, ok := x.(*ssa.Return)
				return ok && len(r.Results) > 0 && !isNilConst(stripConv(retVals(r)[len(r.Results)-1]))
			}}
			hit, path := q.after(sd)
			c.ob("C19-R1", "cmd/glyph.hotReloadManager.startServer#no-failure-after-shutdown-"+itoa(i+1), sd.Pos(), hit == nil, "after the running server was shut down startServer can still fail (read/parse/setup happen after the teardown): a broken save leaves nothing listening while reload() reports the previous version as running", c.blockPath(path)...)
			q2 := &pathQuery{fn: ss, target: isReturn, stop: func(x ssa.Instruction) bool { return isStoreToField(x, "hotReloadManager", "server") }}
			hit2, path2 := q2.after(sd)
			c.ob("C19-R1", "cmd/glyph.hotReloadManager.startServer#new-server-recorded-after-shutdown-"+itoa(i+1), sd.Pos(), hit2 == nil, "after shutting the old server down a return is reachable without recording a new server", c.blockPath(path2)...)
		}
		// the recorded server is started: a call that reaches ListenAndServe lies between prepare and record
		listens := false
		eachCall(ss, func(call ssa.CallInstruction) {
			if sf := staticFn(call); sf != nil {
				if reachesInstr(sf, func(x ssa.Instruction) bool {
					return isCallTo(x, "net/http.Server.ListenAndServe", "net/http.Server.Serve")
				}, 0, map[*ssa.Function]bool{}) {
					listens = true
				}
			}
		})
		c.ob("C19-R1", "cmd/glyph.hotReloadManager.startServer#starts-listening", ss.Pos(), listens, "startServer never starts the prepared server")
	}
	// reload(): failure is only reported, never fatal; success notifies
	if rl := c.mustFn("C19-R1", glyphCmd, "hotReloadManager.reload"); rl != nil {
		bad := false
		eachCall(rl, func(call ssa.CallInstruction) {
			switch callName(call) {
			case "os.Exit", "log.Fatal", "log.Fatalf", "builtin.panic":
				bad = true
			}
		})
		eachInstr(rl, func(_ *ssa.BasicBlock, _ int, ins ssa.Instruction) {
			if _, ok := ins.(*ssa.Panic); ok {
				bad = true
			}
		})
		c.ob("C19-R1", "cmd/glyph.hotReloadManager.reload#failure-is-not-fatal", rl.Pos(), !bad, "a failed reload terminates the dev process")
	}

	// the function that builds the new version recovers: a panic while building (ServeMux pattern conflicts ...) is a failed load
	if pd := c.mustFn("C19-R1", glyphCmd, "hotReloadManager.prepareDevServer"); pd != nil {
		recovers := false
		eachInstr(pd, func(_ *ssa.BasicBlock, _ int, ins ssa.Instruction) {
			d, ok := ins.(*ssa.Defer)
			if !ok {
				return
			}
			var body *ssa.Function
			switch v := d.Call.Value.(type) {
			case *ssa.MakeClosure:
				body, _ = v.Fn.(*ssa.Function)
			case *ssa.Function:
				body = v
			}
			if body == nil {
				return
			}
			eachCall(body, func(call ssa.CallInstruction) {
				if callName(call) == "builtin.recover" {
					recovers = true
				}
			})
		})
		c.ob("C19-R1", fnKey(pd)+"#building-the-new-version-cannot-panic-the-process", pd.Pos(), recovers, "prepareDevServer runs on the reload timer goroutine and registers program-derived patterns on an http.ServeMux (which panics on duplicates / malformed patterns) without a deferred recover of its own: a file that parses but declares two `@ ws /chat` blocks terminates glyph dev instead of leaving the previous version running")
	}

	// the watcher's exclusion test looks at names below the watched root only, component by component
	if se := c.fn(hotPkg, "FileWatcher.shouldExclude"); se != nil {
		substr := false
		eachCall(se, func(call ssa.CallInstruction) {
			if n := callName(call); n == "strings.Contains" || n == "strings.HasPrefix" || n == "strings.Index" {
				if call.Common().Args[0] == ssa.Value(se.Params[1]) {
					substr = true
				}
			}
		})
		c.ob("C19-R4", fnKey(se)+"#exclude-compared-with-path-components", se.Pos(), !substr, "an exclude word is searched as a substring of the whole path: `vendors.glyph`, or any project below a directory whose name merely contains an exclude word (`my.github.io`, `vendor-portal`), is never scanned, so its edits never take effect")
		for _, fn := range c.srcFuncs(hotPkg) {
			eachCall(fn, func(call ssa.CallInstruction) {
				if staticFn(call) != se || fn == se {
					return
				}
				arg := call.Common().Args[1]
				_, raw := arg.(*ssa.Parameter)
				if fv, ok := arg.(*ssa.FreeVar); ok {
					_ = fv
					raw = true
				}
				c.ob("C19-R4", fnKey(fn)+"#exclude-applied-below-the-watched-root", call.Pos(), !raw, "the exclusion test is applied to the path as walked (including the watched root's own directories): a root below a directory named like an exclude word is skipped entirely")
			})
		}
	}

	// ---- R10 listener continuity: a reload never closes the listener
	c.rule("C19-R10", "WCS/ORD: nothing reachable from hotReloadManager.reload (resolved calls within the module) stops or closes an http.Server or a net.Listener: while an edit is being loaded the running version keeps accepting connections (stop-then-listen refused them for the length of the shutdown timeout); and startServer returns success only after a value built by prepareDevServer was handed on (stored or passed to a call): success is never reported for a version that was not installed")
	if rl := c.mustFn("C19-R10", glyphCmd, "hotReloadManager.reload"); rl != nil {
		var where ssa.Instruction
		var inFn *ssa.Function
		seen := map[*ssa.Function]bool{}
		var walk func(fn *ssa.Function, depth int)
		walk = func(fn *ssa.Function, depth int) {
			if fn == nil || seen[fn] || depth > 8 || len(fn.Blocks) == 0 {
				return
			}
			seen[fn] = true
			for _, f := range withAnon(fn) {
				eachInstr(f, func(_ *ssa.BasicBlock, _ int, ins ssa.Instruction) {
					if isCallTo(ins, "net/http.Server.Shutdown", "net/http.Server.Close", "net.Listener.Close", "net.TCPListener.Close") {
						if where == nil {
							where, inFn = ins, f
						}
					}
					if call, ok := ins.(ssa.CallInstruction); ok {
						if sf := staticFn(call); sf != nil && sf.Pkg != nil && strings.HasPrefix(sf.Pkg.Pkg.Path(), modPath) {
							walk(sf, depth+1)
						}
					}
				})
			}
		}
		walk(rl, 0)
		p := rl.Pos()
		detail := ""
		if where != nil {
			p = where.Pos()
			detail = "a reload stops the running server (" + fnKey(inFn) + "): from that call until the replacement listens nothing accepts connections, and an open live-reload stream makes Shutdown wait for its whole timeout"
		}
		c.ob("C19-R10", fnKey(rl)+"#reload-never-closes-the-listener", p, where == nil, detail)
		c.Sites["C19-R10#functions-reachable-from-reload"] = len(seen)
	}
	if ss := c.fn(glyphCmd, "hotReloadManager.startServer"); ss != nil {
		var prep *ssa.Call
		eachInstr(ss, func(_ *ssa.BasicBlock, _ int, ins ssa.Instruction) {
			if call, ok := ins.(*ssa.Call); ok && strings.HasSuffix(callName(call), "hotReloadManager.prepareDevServer") {
				prep = call
			}
		})
		if prep == nil {
			c.ob("C19-R10", fnKey(ss)+"#installs-what-it-built", ss.Pos(), false, "startServer does not build the new version through prepareDevServer")
		} else {
			built := extractOf(prep, 0)
			isBuilt := func(v ssa.Value) bool {
				return derivesFrom(v, func(x ssa.Value) bool {
					for _, b := range built {
						if x == b {
							return true
						}
					}
					return false
				})
			}
			hands := func(ins ssa.Instruction) bool {
				switch x := ins.(type) {
				case *ssa.Store:
					return isBuilt(x.Val)
				case ssa.CallInstruction:
					if n := callName(x); strings.HasPrefix(n, "fmt.") || strings.HasPrefix(n, modPath+"/cmd/glyph.print") {
						return false
					}
					for _, a := range x.Common().Args {
						if isBuilt(a) {
							return true
						}
					}
				}
				return false
			}
			q := &pathQuery{fn: ss, stop: hands, target: func(x ssa.Instruction) bool {
				r, ok := x.(*ssa.Return)
				return ok && len(r.Results) > 0 && isNilConst(stripConv(retVals(r)[len(r.Results)-1]))
			}}
			hit, path := q.after(prep)
			c.ob("C19-R10", fnKey(ss)+"#installs-what-it-built", prep.Pos(), hit == nil, "startServer reports success on a path that neither stores nor passes on anything prepareDevServer built: the reload is announced but the old version keeps serving", c.blockPath(path)...)
		}
	}

	// every reload request reads the file: reload() cannot return without having gone through startServer
	if rl := c.fn(glyphCmd, "hotReloadManager.reload"); rl != nil {
		q := &pathQuery{fn: rl, target: isReturn, stop: func(x ssa.Instruction) bool {
			call, ok := x.(ssa.CallInstruction)
			return ok && strings.HasSuffix(callName(call), "hotReloadManager.startServer")
		}}
		hit, path := q.fromEntry()
		c.ob("C19-R10", fnKey(rl)+"#every-reload-request-loads-the-file", rl.Pos(), hit == nil, "reload() can return without calling startServer (an 'already reloading' guard, a rate limit): the change event that asked for this reload may belong to a save made after the running reload read the file - nothing re-arms, so the last valid edit never takes effect", c.blockPath(path)...)
	}

	// ---- R12 a candidate version is built on objects of its own
	c.rule("C19-R12", "ESC/fresh: every *interpreter.Interpreter into which cmd/glyph loads a module (LoadModule / LoadModuleWithPath) while building a version is created for that build - it is the result of a constructor call in the function that loads, or a parameter whose every caller passes such a result - never one kept in a field or package variable across reloads: loading overwrites functions and type definitions in place, so a candidate that is then rejected (missing static directory, duplicate ws pattern, failing import) would already have rewritten the version that keeps serving")
	{
		var fresh func(v ssa.Value, fn *ssa.Function, d int) (bool, string)
		fresh = func(v ssa.Value, fn *ssa.Function, d int) (bool, string) {
			if d > 4 {
				return false, "origin not resolved"
			}
			switch x := v.(type) {
			case *ssa.Call:
				if sf := staticFn(x); sf != nil && sf.Signature.Results().Len() >= 1 && typeIs(derefType(sf.Signature.Results().At(0).Type()), interpPath, "Interpreter") {
					return true, ""
				}
				return false, "result of " + short(callName(x))
			case *ssa.Extract:
				return fresh(x.Tuple, fn, d+1)
			case *ssa.Phi:
				for _, e := range x.Edges {
					if ok, why := fresh(e, fn, d+1); !ok {
						return false, why
					}
				}
				return true, ""
			case *ssa.Parameter:
				idx := -1
				for i, p := range fn.Params {
					if p == x {
						idx = i
					}
				}
				nCallers := 0
				for _, caller := range c.srcFuncs(glyphCmd) {
					bad := ""
					eachCall(caller, func(call ssa.CallInstruction) {
						if staticFn(call) != fn || idx < 0 || idx >= len(call.Common().Args) {
							return
						}
						nCallers++
						if ok, why := fresh(call.Common().Args[idx], caller, d+1); !ok {
							bad = "passed by " + fnKey(caller) + ": " + why
						}
					})
					if bad != "" {
						return false, bad
					}
				}
				if nCallers == 0 {
					return false, "parameter of a function without resolved callers"
				}
				return true, ""
			case *ssa.UnOp:
				if nt, f, ok := fieldOf(x.X); ok && nt != nil {
					return false, "loaded from the field " + nt.Obj().Name() + "." + f
				}
				if g, ok := x.X.(*ssa.Global); ok {
					return false, "loaded from the package variable " + g.Name()
				}
				if al, ok := x.X.(*ssa.Alloc); ok {
					okAll := true
					why := ""
					for _, r := range refs(al) {
						if st, ok := r.(*ssa.Store); ok && st.Addr == ssa.Value(al) {
							if ok2, w := fresh(st.Val, fn, d+1); !ok2 {
								okAll, why = false, w
							}
						}
					}
					return okAll, why
				}
			case *ssa.FreeVar:
				// captured by a closure: judge the binding in the enclosing function
				if fn.Parent() != nil {
					for i, fv := range fn.FreeVars {
						if fv == x {
							for _, r := range *fn.Referrers() {
								if mc, ok := r.(*ssa.MakeClosure); ok && i < len(mc.Bindings) {
									return fresh(mc.Bindings[i], fn.Parent(), d+1)
								}
							}
						}
					}
				}
			}
			return false, "origin not resolved"
		}
		n := 0
		for _, fn := range c.srcFuncs(glyphCmd) {
			k := 0
			eachInstr(fn, func(_ *ssa.BasicBlock, _ int, ins ssa.Instruction) {
				call, ok := ins.(*ssa.Call)
				if !ok {
					return
				}
				if nm := callName(call); nm != interpPath+".Interpreter.LoadModule" && nm != interpPath+".Interpreter.LoadModuleWithPath" {
					return
				}
				n++
				k++
				ok2, why := fresh(call.Call.Args[0], fn, 0)
				c.ob("C19-R12", fnKey(fn)+"#module-loaded-into-an-interpreter-of-its-own-"+itoa(k), call.Pos(), ok2, "the module is loaded into an interpreter that outlives this build ("+why+"): a reload that fails after this point is reported as failed, yet the functions and types of the rejected edit have already replaced those of the running version")
			})
		}
		c.Sites["C19-R12#module-loads"] = n
		c.ob("C19-R12", glyphCmd+"#module-loads-found", token.NoPos, n >= 1, "cmd/glyph loads no module into an interpreter: the rule's anchor is gone")
	}

	// ---- R11 an empty source is not a version
	c.rule("C19-R11", "MPT: in prepareDevServer a branch whose condition depends on the parsed module's Items (their number, or a boolean predicate of cmd/glyph over the module) has an edge from which no success return is reachable: on a reload, the empty file an editor leaves between truncating and writing is a failed load, not a version that replaces the running one")
	if pd := c.fn(glyphCmd, "hotReloadManager.prepareDevServer"); pd != nil {
		found := false
		nIf := 0
		for _, b := range pd.Blocks {
			iff := ifOf(b)
			if iff == nil {
				continue
			}
			dep := derivesFrom(iff.Cond, func(x ssa.Value) bool {
				switch y := x.(type) {
				case *ssa.Call:
					if callName(y) == "builtin.len" {
						return derivesFrom(y.Call.Args[0], func(z ssa.Value) bool { return loadedFromField(z, "Module", "Items") })
					}
					if sf := staticFn(y); sf != nil && sf.Pkg != nil && sf.Pkg.Pkg.Path() == modPath+"/cmd/glyph" && sf.Signature.Results().Len() == 1 {
						if bt, ok := sf.Signature.Results().At(0).Type().Underlying().(*types.Basic); ok && bt.Kind() == types.Bool {
							for _, a := range y.Call.Args {
								if typeIs(a.Type(), modPath+"/pkg/ast", "Module") {
									return true
								}
							}
						}
					}
				}
				return false
			})
			if !dep {
				continue
			}
			nIf++
			for si, succ := range b.Succs {
				_ = si
				q := &pathQuery{fn: pd, target: func(x ssa.Instruction) bool {
					r, ok := x.(*ssa.Return)
					return ok && len(r.Results) > 0 && isNilConst(stripConv(retVals(r)[len(r.Results)-1]))
				}}
				if h, _ := q.from(succ, 0); h == nil {
					found = true
				}
			}
		}
		c.Sites["C19-R11#branches-on-module-items"] = nIf
		c.ob("C19-R11", fnKey(pd)+"#empty-source-is-a-failed-load", pd.Pos(), found, "prepareDevServer accepts a module whatever it contains: a file read while the editor has truncated it (empty, blank, comments only) parses to zero items, counts as a successful reload and replaces the working server by one that answers 404 to every route")
	}

	c.rule("C19-R2", "MPT: in ReloadManager.handleChanges, from the err!=nil edge of CompileFile neither server.Reload nor server.SetState is reachable and every path to return passes notifyReload with Success:false; Reload's argument is CompileFile's result; SetState is reachable only from Reload's err==nil edge; compile and install happen in one critical section of rm.mu (no Unlock between CompileFile and Reload)")
	if hc := c.mustFn("C19-R2", hotPkg, "ReloadManager.handleChanges"); hc != nil {
		var compile, reload *ssa.Call
		eachInstr(hc, func(_ *ssa.BasicBlock, _ int, ins ssa.Instruction) {
			cl, ok := ins.(*ssa.Call)
			if !ok || !cl.Call.IsInvoke() {
				return
			}
			switch cl.Call.Method.Name() {
			case "CompileFile":
				compile = cl
			case "Reload":
				reload = cl
			}
		})
		isInvoke := func(name string) func(ssa.Instruction) bool {
			return func(x ssa.Instruction) bool {
				cl, ok := x.(ssa.CallInstruction)
				return ok && cl.Common().IsInvoke() && cl.Common().Method.Name() == name
			}
		}
		if compile == nil || reload == nil {
			c.ob("C19-R2", hotPkg+".ReloadManager.handleChanges#anchors", hc.Pos(), false, "CompileFile / Reload calls not found")
		} else {
			notifiesFailure := func(x ssa.Instruction) bool {
				cl, ok := x.(*ssa.Call)
				if !ok || callName(cl) != hotPath+".ReloadManager.notifyReload" {
					return false
				}
				// the event literal's Success field is not set to true
				okFalse := true
				sawSuccessField := false
				visitF := func(v ssa.Value) bool {
					if al, ok := v.(*ssa.Alloc); ok {
						for _, r := range refs(al) {
							if fa, ok := r.(*ssa.FieldAddr); ok {
								if _, f, _ := fieldOf(fa); f == "Success" {
									for _, rr := range refs(fa) {
										if st, ok := rr.(*ssa.Store); ok {
											sawSuccessField = true
											if !isConstBool(st.Val, false) {
												okFalse = false
											}
										}
									}
								}
							}
						}
					}
					return false
				}
				if u, ok := cl.Call.Args[1].(*ssa.UnOp); ok {
					visitF(u.X)
				}
				derivesFrom(cl.Call.Args[1], visitF)
				_ = sawSuccessField // an event literal that omits Success is a failure event (zero value)
				return okFalse
			}
			for _, er := range extractOf(compile, 1) {
				for _, b := range hc.Blocks {
					for si, s := range b.Succs {
						if !nonNilOnEdge(b, si, er) {
							continue
						}
						q := &pathQuery{fn: hc, target: func(x ssa.Instruction) bool { return isInvoke("Reload")(x) || isInvoke("SetState")(x) }}
						hit, path := q.from(s, 0)
						c.ob("C19-R2", hotPkg+".ReloadManager.handleChanges#no-reload-after-compile-error", compile.Pos(), hit == nil, "after a failed compilation the server is still reloaded / its state replaced: a broken edit takes down the version that loaded successfully", c.blockPath(path)...)
						q2 := &pathQuery{fn: hc, target: isReturn, stop: notifiesFailure}
						hit2, path2 := q2.from(s, 0)
						c.ob("C19-R2", hotPkg+".ReloadManager.handleChanges#compile-error-notified-as-failure", compile.Pos(), hit2 == nil, "a failed compilation is not reported as a failed reload", c.blockPath(path2)...)
					}
				}
			}
			okArg := false
			for _, bc := range extractOf(compile, 0) {
				if derivesFrom(reload.Call.Args[0], func(v ssa.Value) bool { return v == bc }) {
					okArg = true
				}
			}
			c.ob("C19-R2", hotPkg+".ReloadManager.handleChanges#reload-installs-compile-result", reload.Pos(), okArg, "server.Reload is given something other than the bytecode just compiled")
			// success is reported only for a program the server accepted: a notifyReload whose event has Success set to
			// true is reachable, when a server and a program exist, only through the err==nil edge of server.Reload
			notifiesSuccess := func(x ssa.Instruction) bool {
				cl, ok := x.(*ssa.Call)
				if !ok || callName(cl) != hotPath+".ReloadManager.notifyReload" {
					return false
				}
				succ := false
				visit := func(v ssa.Value) bool {
					if al, ok := v.(*ssa.Alloc); ok {
						for _, r := range refs(al) {
							if fa, ok := r.(*ssa.FieldAddr); ok {
								if _, f, _ := fieldOf(fa); f == "Success" {
									for _, rr := range refs(fa) {
										if st, ok := rr.(*ssa.Store); ok && isConstBool(st.Val, true) {
											succ = true
										}
									}
								}
							}
						}
					}
					return false
				}
				if u, ok := cl.Call.Args[1].(*ssa.UnOp); ok {
					visit(u.X)
				}
				derivesFrom(cl.Call.Args[1], visit)
				return succ
			}
			nSucc := 0
			eachInstr(hc, func(_ *ssa.BasicBlock, _ int, ins ssa.Instruction) {
				if !notifiesSuccess(ins) {
					return
				}
				nSucc++
				q := &pathQuery{fn: hc, target: func(x ssa.Instruction) bool { return x == ins }, cutEdge: func(b *ssa.BasicBlock, si int) bool {
					if nilOnEdge(b, si, reload) {
						return true
					}
					// no server attached / nothing compiled: there is nothing to hand over
					iff := ifOf(b)
					if iff == nil {
						return false
					}
					for _, f := range eqFacts(iff.Cond, si == 0) {
						for _, pr := range [][2]ssa.Value{{f.x, f.y}, {f.y, f.x}} {
							if isNilConst(pr[1]) && (loadedFromField(pr[0], "ReloadManager", "server") || derivesFrom(pr[0], func(v ssa.Value) bool {
								for _, bc := range extractOf(compile, 0) {
									if v == bc {
										return true
									}
								}
								return false
							})) {
								return true
							}
						}
					}
					return false
				}}
				hit, path := q.fromEntry()
				c.ob("C19-R2", hotPkg+".ReloadManager.handleChanges#success-reported-only-after-server-accepted-"+itoa(nSucc), ins.Pos(), hit == nil, "a reload is reported as successful (and the function returns) on a path on which the compiled program was not handed to the server, or Reload did not succeed: a later valid edit is dropped while the manager claims it took effect", c.blockPath(path)...)
			})
			// SetState only after Reload succeeded
			eachInstr(hc, func(_ *ssa.BasicBlock, _ int, ins ssa.Instruction) {
				if !isInvoke("SetState")(ins) {
					return
				}
				q := &pathQuery{fn: hc, target: func(x ssa.Instruction) bool { return x == ins }, cutEdge: func(b *ssa.BasicBlock, si int) bool {
					return nilOnEdge(b, si, reload)
				}}
				hit, path := q.fromEntry()
				c.ob("C19-R2", hotPkg+".ReloadManager.handleChanges#state-restored-only-after-successful-reload", ins.Pos(), hit == nil, "saved state is pushed into the server although Reload did not succeed", c.blockPath(path)...)
			})
			// one critical section
			var unlockBetween ssa.Instruction
			eachInstr(hc, func(_ *ssa.BasicBlock, _ int, ins ssa.Instruction) {
				if !isCallTo(ins, "sync.Mutex.Unlock", "sync.RWMutex.Unlock") || isDeferInstr(ins) {
					return
				}
				q1 := &pathQuery{fn: hc, target: func(x ssa.Instruction) bool { return x == ins }}
				q2 := &pathQuery{fn: hc, target: func(x ssa.Instruction) bool { return x == ssa.Instruction(reload) }}
				h1, _ := q1.after(compile)
				h2, _ := q2.after(ins)
				if h1 != nil && h2 != nil {
					unlockBetween = ins
				}
			})
			p := compile.Pos()
			if unlockBetween != nil {
				p = unlockBetween.Pos()
			}
			c.ob("C19-R2", hotPkg+".ReloadManager.handleChanges#compile-and-install-one-critical-section", p, unlockBetween == nil, "the manager lock is released between compiling and installing: two overlapping reloads can install the older compile last, so the server ends on a stale version although the file holds a newer valid one")
			// and the lock is actually held at the compile
			e := newLck(c, &lckConfig{rule: "C19-R3", pkgs: []string{hotPkg}, guards: []guard{}})
			at, _ := e.analyse(hc)
			c.ob("C19-R2", hotPkg+".ReloadManager.handleChanges#lock-held-across-compile-and-reload", compile.Pos(), at[compile][hotPkg+".ReloadManager.mu"] == modeWrite && at[reload][hotPkg+".ReloadManager.mu"] == modeWrite, "handleChanges does not hold rm.mu (exclusive) at CompileFile and at Reload")
		}
	}

	c.rule("C19-R3", "LCK: hotReloadManager.server under hotReloadManager.mu and liveReloadConns under liveReloadMu (cmd/glyph); ReloadManager.{reloadCount,lastReload} under ReloadManager.mu; FileWatcher.fileHashes under FileWatcher.mu")
	e := newLck(c, &lckConfig{rule: "C19-R3", pkgs: []string{glyphCmd, hotPkg}, guards: []guard{
		{typ: glyphCmd + ".hotReloadManager", field: "server", class: glyphCmd + ".hotReloadManager.mu"},
		{typ: glyphCmd + ".hotReloadManager", field: "liveReloadConns", class: glyphCmd + ".hotReloadManager.liveReloadMu"},
		{typ: hotPkg + ".ReloadManager", field: "reloadCount", class: hotPkg + ".ReloadManager.mu"},
		{typ: hotPkg + ".ReloadManager", field: "lastReload", class: hotPkg + ".ReloadManager.mu"},
		{typ: hotPkg + ".FileWatcher", field: "fileHashes", class: hotPkg + ".FileWatcher.mu"},
	}})
	e.run()
	c.floor("C19-R3", 6)

	c.rule("C19-R4", "MPT: in FileWatcher.detectChanges every file that is recorded as present is content-hashed on every poll: after the store into the current-files set every path to return passes hashFile (no size/mtime shortcut can hide an edit that keeps length and timestamp second)")
	if dc := c.mustFn("C19-R4", hotPkg, "FileWatcher.detectChanges"); dc != nil {
		n := 0
		for _, fn := range withAnon(dc) {
			eachInstr(fn, func(_ *ssa.BasicBlock, _ int, ins ssa.Instruction) {
				mu, ok := ins.(*ssa.MapUpdate)
				if !ok || !isConstBool(mu.Value, true) {
					return
				}
				// the set of current files: a local map[string]bool
				if _, isFV := stripLoad(mu.Map).(*ssa.FreeVar); !isFV {
					if _, isMM := mu.Map.(*ssa.MakeMap); !isMM {
						return
					}
				}
				n++
				q := &pathQuery{fn: fn, target: isReturn, stop: func(x ssa.Instruction) bool { return isCallTo(x, hotPath+".FileWatcher.hashFile") }}
				hit, path := q.after(ins)
				c.ob("C19-R4", hotPkg+".FileWatcher.detectChanges#present-file-always-hashed-"+itoa(n), ins.Pos(), hit == nil, "a present file can be skipped without hashing its content: an edit that keeps size and timestamp is never seen, so a later valid edit does not take effect", c.blockPath(path)...)
			})
		}
		if n == 0 {
			c.ob("C19-R4", hotPkg+".FileWatcher.detectChanges#current-files-set", dc.Pos(), false, "no per-poll set of present files found")
		}
		// a changed hash is recorded and reported
		_ = token.NoPos
	}
}

func derefType(t types.Type) types.Type {
	if p, ok := t.Underlying().(*types.Pointer); ok {
		return p.Elem()
	}
	return t
}
