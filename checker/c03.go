package main

import (
	"go/ast"
	"go/constant"
	"go/token"
	"go/types"
	"regexp"
	"sort"
	"strconv"
	"strings"

	"golang.org/x/tools/go/ssa"
)

func init() {
	register(&propSpec{
		id: "C03", title: "Optimisation never changes behaviour", run: runC03,
		notCovered:  "semantic preservation of each individual rewrite on all values (algebraic identities such as x*0 -> 0 for floats/strings, CSE key collisions, strength reduction), i.e. equality of results between optimisation levels over all programs x inputs; known residue: loop-invariant code motion still moves a plain assignment out of a loop that may run zero times",
		assumptions: []string{"the optimiser's flow facts are the three maps of compiler.Optimizer (constants, copies, expressions); statement kinds are the concrete types implementing ast.Statement"},
	})
}

// caseClausesOf returns, for the type switches in decl, a map from case type name ("T" / "*T") to clause.
func caseClausesOf(c *Ctx, rel string, decl *ast.FuncDecl) map[string]*ast.CaseClause {
	out := map[string]*ast.CaseClause{}
	if decl == nil {
		return out
	}
	p := c.pkg(rel)
	ast.Inspect(decl, func(n ast.Node) bool {
		ts, ok := n.(*ast.TypeSwitchStmt)
		if !ok {
			return true
		}
		for _, st := range ts.Body.List {
			cc := st.(*ast.CaseClause)
			if cc.List == nil {
				if _, dup := out["default"]; !dup {
					out["default"] = cc
				}
				continue
			}
			for _, e := range cc.List {
				t := p.TypesInfo.TypeOf(e)
				if t == nil {
					continue
				}
				key := ""
				if pt, ok := t.(*types.Pointer); ok {
					if n := namedOf(pt.Elem()); n != nil {
						key = "*" + n.Obj().Name()
					}
				} else if n := namedOf(t); n != nil {
					key = n.Obj().Name()
				}
				if key != "" {
					if _, dup := out[key]; !dup {
						out[key] = cc
					}
				}
			}
		}
		return false // only the outermost type switch
	})
	return out
}

// stmtKindsWithEffects: ast.Statement implementors that assign (Target field) or contain nested blocks.
func stmtKindsWithEffects(c *Ctx) map[string][]string {
	out := map[string][]string{}
	p := c.Pkgs[astPath]
	for _, name := range astImplementors(c, "Statement") {
		tn := p.Types.Scope().Lookup(name).(*types.TypeName)
		st, ok := tn.Type().Underlying().(*types.Struct)
		if !ok {
			continue
		}
		var fields []string
		for i := 0; i < st.NumFields(); i++ {
			f := st.Field(i)
			switch {
			case f.Name() == "Target":
				fields = append(fields, "Target")
			case isStmtSlice(f.Type()):
				fields = append(fields, f.Name())
			case isSwitchCaseSlice(f.Type()):
				fields = append(fields, f.Name())
			}
		}
		if len(fields) > 0 {
			out[name] = fields
		}
	}
	return out
}

func isStmtSlice(t types.Type) bool {
	sl, ok := t.Underlying().(*types.Slice)
	return ok && typeIs(sl.Elem(), astPath, "Statement")
}

func isSwitchCaseSlice(t types.Type) bool {
	sl, ok := t.Underlying().(*types.Slice)
	return ok && typeIs(sl.Elem(), astPath, "SwitchCase")
}

func clauseCalls(c *Ctx, rel string, cc *ast.CaseClause) []string {
	p := c.pkg(rel)
	var out []string
	for _, st := range cc.Body {
		ast.Inspect(st, func(n ast.Node) bool {
			call, ok := n.(*ast.CallExpr)
			if !ok {
				return true
			}
			name := ""
			switch f := call.Fun.(type) {
			case *ast.Ident:
				name = f.Name
			case *ast.SelectorExpr:
				name = f.Sel.Name
			}
			_ = p
			arg := ""
			if len(call.Args) > 0 {
				if se, ok := call.Args[0].(*ast.SelectorExpr); ok {
					arg = se.Sel.Name
				} else if ue, ok := call.Args[0].(*ast.UnaryExpr); ok {
					if id, ok := ue.X.(*ast.Ident); ok {
						arg = "&" + id.Name
					}
				}
			}
			out = append(out, name+"("+arg+")")
			// a helper of the package that is handed fields of the statement: what it does with the corresponding
			// parameters counts as done by the arm (one level), in the order of the helper's body
			var fid *ast.Ident
			switch f := call.Fun.(type) {
			case *ast.Ident:
				fid = f
			case *ast.SelectorExpr:
				fid = f.Sel
			}
			if fid == nil || p == nil {
				return true
			}
			fo, ok := p.TypesInfo.Uses[fid].(*types.Func)
			if !ok || fo.Pkg() == nil || fo.Pkg() != p.Types {
				return true
			}
			hd := helperDecl(c, rel, fo)
			if hd == nil || hd.Body == nil || hd.Type.Params == nil {
				return true
			}
			// parameter name -> field name passed
			var pnames []string
			for _, f := range hd.Type.Params.List {
				for _, nm := range f.Names {
					pnames = append(pnames, nm.Name)
				}
			}
			passed := map[string]string{}
			for i, a := range call.Args {
				if se, ok := a.(*ast.SelectorExpr); ok && i < len(pnames) {
					passed[pnames[i]] = se.Sel.Name
				}
			}
			if len(passed) == 0 {
				return true
			}
			ast.Inspect(hd.Body, func(m ast.Node) bool {
				c2, ok := m.(*ast.CallExpr)
				if !ok {
					return true
				}
				n2 := ""
				switch f := c2.Fun.(type) {
				case *ast.Ident:
					n2 = f.Name
				case *ast.SelectorExpr:
					n2 = f.Sel.Name
				}
				a2 := ""
				if len(c2.Args) > 0 {
					if id, ok := c2.Args[0].(*ast.Ident); ok {
						if fld, ok := passed[id.Name]; ok {
							a2 = fld
						}
					}
				}
				out = append(out, n2+"("+a2+")")
				return true
			})
			return true
		})
	}
	return out
}

// helperDecl finds the declaration of a function or method of package rel.
func helperDecl(c *Ctx, rel string, fo *types.Func) *ast.FuncDecl {
	p := c.pkg(rel)
	if p == nil {
		return nil
	}
	for _, f := range p.Syntax {
		for _, d := range f.Decls {
			if fd, ok := d.(*ast.FuncDecl); ok && p.TypesInfo.Defs[fd.Name] == fo {
				return fd
			}
		}
	}
	return nil
}

func runC03(c *Ctx) {
	c03Aliasing(c)
	c03Kill(c)
	c03Keys(c)
	c03Rebuild(c)
	c03Identities(c)
	if !c03Core(c) {
		return
	}
	c03Flow(c)
	c03Plumbing(c)
}

// c03Core: R1-R4, the soundness rules of the fact map and the folder (also evaluated under C15-R9: the JIT's tiers
// above baseline are this optimiser). Returns false when the optimiser's anchors are missing.
func c03Core(c *Ctx) bool {
	opt := c.decl(compilerPkg, "Optimizer.OptimizeStatements")
	kill := c.decl(compilerPkg, "getModifiedVariablesInStmt")
	if opt == nil || kill == nil {
		c.ob("C03-R1", compilerPkg+"#optimizer-anchors", token.NoPos, false, "Optimizer.OptimizeStatements / getModifiedVariablesInStmt not found: the invalidation mechanism is absent")
		return false
	}
	kinds := stmtKindsWithEffects(c)
	if len(kinds) < 6 {
		c.undecided("C03-R1: only %d assigning/nesting statement kinds computed from pkg/ast", len(kinds))
	}
	var kn []string
	for k := range kinds {
		kn = append(kn, k)
	}
	sort.Strings(kn)

	// ---- R1 kill-set collector total
	c.rule("C03-R1", "EXH: getModifiedVariablesInStmt has an arm, in value and in pointer form, for every ast.Statement kind that assigns (a Target field) or contains nested statement blocks ([]Statement / []SwitchCase fields), or its default arm kills everything: a kind without an arm lets stale constants survive a loop / branch that assigns")
	karms := caseClausesOf(c, compilerPkg, kill)
	defaultKills := false
	if d := karms["default"]; d != nil && len(d.Body) > 0 {
		defaultKills = true
	}
	exceptKinds := map[string]string{
		"WebSocketEvent": "an item of WebSocketRoute.Events compiled per event; it never occurs inside a statement list handed to the optimiser",
	}
	for _, k := range kn {
		if why, ok := exceptKinds[k]; ok {
			c.info("C03-R1", compilerPkg+".getModifiedVariablesInStmt#exception:"+k, kill.Pos(), "reasoned exception: "+why)
			continue
		}
		for _, form := range []string{k, "*" + k} {
			_, has := karms[form]
			c.ob("C03-R1", compilerPkg+".getModifiedVariablesInStmt#arm:"+form, kill.Pos(), has || defaultKills, "no arm for "+form+" (fields "+strings.Join(kinds[k], ",")+"): assignments inside such a statement are not seen by the kill set, so a constant recorded before a loop/branch containing it is still propagated afterwards")
		}
	}
	// nested-block arms recurse into every block field
	for _, k := range kn {
		cc := karms["*"+k]
		if cc == nil {
			continue
		}
		src := nodeText(c, cc)
		for _, f := range kinds[k] {
			if f == "Target" {
				continue
			}
			c.ob("C03-R1", compilerPkg+".getModifiedVariablesInStmt#arm:*"+k+"-covers-."+f, cc.Pos(), strings.Contains(src, "."+f), "the arm for *"+k+" never looks into ."+f)
		}
	}

	// ---- R2 joins invalidate
	c.rule("C03-R2", "MPT: in OptimizeStatements every arm for a statement kind with nested blocks invalidates (getModifiedVariables on each block field, then deletion from constants/copies/expressions) — loops before optimising the body, `if` after the branches with the facts restored between then/else; the default arm invalidates whatever the unknown statement may assign")
	oarms := caseClausesOf(c, compilerPkg, opt)
	for _, k := range kn {
		nested := false
		for _, f := range kinds[k] {
			if f != "Target" {
				nested = true
			}
		}
		if !nested {
			continue
		}
		for _, form := range []string{k, "*" + k} {
			cc := oarms[form]
			if cc == nil {
				// falls to default: default must invalidate
				continue
			}
			calls := strings.Join(clauseCalls(c, compilerPkg, cc), " ")
			src := nodeText(c, cc)
			for _, f := range kinds[k] {
				if f == "Target" {
					continue
				}
				covered := strings.Contains(calls, "getModifiedVariables("+f+")") || (f == "Cases" && strings.Contains(src, ".Cases") && strings.Contains(calls, "getModifiedVariables(Body)")) || strings.Contains(calls, "getModifiedVariablesInStmt(")
				c.ob("C03-R2", compilerPkg+".Optimizer.OptimizeStatements#arm:"+form+"-invalidates-."+f, cc.Pos(), covered, "the "+form+" arm does not compute the variables assigned in ."+f+": facts recorded before the statement stay in force after it although that block may change them")
			}
			if k == "WhileStatement" || k == "ForStatement" {
				cl := clauseCalls(c, compilerPkg, cc)
				lastOpt, lastInv := -1, -1
				for i, name := range cl {
					if strings.HasPrefix(name, "OptimizeStatements(") {
						lastOpt = i
					}
					if strings.HasPrefix(name, "invalidate(") || strings.HasPrefix(name, "restoreFacts(") {
						lastInv = i
					}
				}
				if lastOpt >= 0 {
					c.ob("C03-R2", compilerPkg+".Optimizer.OptimizeStatements#arm:"+form+"-forgets-body-facts-after-loop", cc.Pos(), lastInv > lastOpt, "the loop body is optimised and what it learnt about the variables it assigns stays in force after the loop, although the loop may run zero times or be left before the assignment (`$ x = 1; while c { x = 5 }; > x` compiles to `> 5`)")
				}
			}
			if k == "IfStatement" {
				// facts must be reset between and after the branches
				okReset := strings.Contains(calls, "restoreFacts(") || strings.Contains(calls, "snapshotFacts(")
				c.ob("C03-R2", compilerPkg+".Optimizer.OptimizeStatements#arm:"+form+"-branches-start-from-same-facts", cc.Pos(), okReset, "both branches of a non-constant if are optimised with one shared fact set: what the then-branch records is applied in the else-branch and after the if")
			}
		}
	}
	if d := oarms["default"]; d != nil {
		calls := strings.Join(clauseCalls(c, compilerPkg, d), " ")
		c.ob("C03-R2", compilerPkg+".Optimizer.OptimizeStatements#default-arm-invalidates", d.Pos(), strings.Contains(calls, "getModifiedVariablesInStmt(") || strings.Contains(calls, "getModifiedVariables("), "statement kinds without an optimizer arm are passed through without invalidating what they assign (the parser produces value-form statements, which all take this arm)")
	} else {
		c.ob("C03-R2", compilerPkg+".Optimizer.OptimizeStatements#default-arm", opt.Pos(), false, "no default arm")
	}
	// dead-code flag only from return statements. The flag is the identifier tested by the
	// `if <flag> { continue }` at the top of the statement loop, whatever it is called.
	deadFlag := "reachedReturn"
	ast.Inspect(opt, func(n ast.Node) bool {
		rs, ok := n.(*ast.RangeStmt)
		if !ok || len(rs.Body.List) == 0 {
			return true
		}
		if is, ok := rs.Body.List[0].(*ast.IfStmt); ok && len(is.Body.List) == 1 {
			if br, ok := is.Body.List[0].(*ast.BranchStmt); ok && br.Tok == token.CONTINUE {
				if id, ok := is.Cond.(*ast.Ident); ok {
					deadFlag = id.Name
				}
			}
		}
		return false
	})
	if fn := c.fn(compilerPkg, "Optimizer.OptimizeStatements"); fn != nil {
		for form, cc := range oarms {
			if strings.Contains(form, "ReturnStatement") {
				continue
			}
			sets := false
			for _, st := range cc.Body {
				ast.Inspect(st, func(n ast.Node) bool {
					if as, ok := n.(*ast.AssignStmt); ok {
						for i, l := range as.Lhs {
							if id, ok := l.(*ast.Ident); ok && id.Name == deadFlag && i < len(as.Rhs) {
								if v, ok := as.Rhs[i].(*ast.Ident); !ok || v.Name != "false" {
									sets = true
								}
							}
						}
					}
					return true
				})
			}
			if sets {
				c.ob("C03-R2", compilerPkg+".Optimizer.OptimizeStatements#arm:"+form+"-sets-reachedReturn", cc.Pos(), false, "statements after a "+form+" are dropped as dead code although it is not an unconditional return (a branch or loop that may not execute / may fall through)")
			}
		}
		c.ob("C03-R2", compilerPkg+".Optimizer.OptimizeStatements#dead-code-only-after-return", opt.Pos(), true, "")
	}

	// ---- R3 LICM
	c.rule("C03-R3", "MPT: loop-invariant hoisting in OptimizeStatements happens only on the true edge of isExprInvariant, and isExprInvariant answers true only after a whitelisting predicate whose type switch has a default arm returning false (unknown / effectful expression kinds are never moved), or after consulting exprHasSideEffects with a use-collector whose default arm marks the expression as depending on everything")
	if ie := c.mustFn("C03-R3", compilerPkg, "isExprInvariant"); ie != nil {
		okWL := false
		eachCall(ie, func(call ssa.CallInstruction) {
			sf := staticFn(call)
			if sf == nil || sf.Pkg == nil || sf.Pkg.Pkg.Path() != compilerPath || !strings.HasSuffix(sf.Signature.Results().String(), "bool)") {
				return
			}
			d := c.decl(compilerPkg, sf.Name())
			if d == nil {
				return
			}
			arms := caseClausesOf(c, compilerPkg, d)
			if def := arms["default"]; def != nil && strings.Contains(nodeText(c, def), "return false") {
				// and its false result makes isExprInvariant return false
				for _, b := range ie.Blocks {
					for si, s := range b.Succs {
						if known, val := boolOnEdge(b, si, call.(ssa.Value)); known && !val {
							q := &pathQuery{fn: ie, target: func(x ssa.Instruction) bool {
								r, ok := x.(*ssa.Return)
								return ok && !isConstBool(retVals(r)[0], false)
							}}
							if h, _ := q.from(s, 0); h == nil {
								okWL = true
							}
						}
					}
				}
			}
		})
		c.ob("C03-R3", compilerPkg+".isExprInvariant#refuses-unknown-and-effectful-expressions", ie.Pos(), okWL, "isExprInvariant accepts expression kinds it cannot see into (calls, awaits, matches, lambdas…): their assignments are hoisted out of the loop and executed once instead of every iteration")
	}
	if fn := c.fn(compilerPkg, "Optimizer.OptimizeStatements"); fn != nil {
		// appends to the invariant list only under isExprInvariant true
		// the hoisting decision may sit in a helper of the while arm (splitLoopInvariants): the arm's function and the
		// Optimizer methods it calls are searched; constructs stay named after OptimizeStatements
		hoistFns := []*ssa.Function{fn}
		eachCall(fn, func(call ssa.CallInstruction) {
			if sf := staticFn(call); sf != nil && sf != fn && sf.Pkg == fn.Pkg && sf.Signature.Recv() != nil && len(sf.Blocks) > 0 {
				hoistFns = append(hoistFns, sf)
			}
		})
		var invs []ssa.Value
		for _, hf := range hoistFns {
			eachCall(hf, func(call ssa.CallInstruction) {
				if callName(call) == compilerPath+".isExprInvariant" {
					invs = append(invs, call.(ssa.Value))
				}
			})
		}
		c.ob("C03-R3", compilerPkg+".Optimizer.OptimizeStatements#hoisting-consults-isExprInvariant", fn.Pos(), len(invs) > 0 || !strings.Contains(nodeText(c, opt), "invariant"), "statements are hoisted without consulting isExprInvariant")
		// what is moved out of the loop is a computation into a fresh temporary, never the program's own
		// declaration/assignment: on the isExprInvariant-true side no existing statement node (a type-asserted
		// element of the loop body) is re-emitted as a statement
		for _, inv := range invs {
			hf := inv.(ssa.Instruction).Parent()
			for _, b := range hf.Blocks {
				iff := ifOf(b)
				if iff == nil || !derivesFrom(iff.Cond, func(v ssa.Value) bool { return v == inv }) {
					continue
				}
				// the region entered only when the test (a conjunction containing the call) holds
				region := b.Succs[0]
				moved := false
				movedKind := ""
				var at token.Pos
				for _, rb := range hf.Blocks {
					if rb != region && !region.Dominates(rb) {
						continue
					}
					for _, ins := range rb.Instrs {
						mi, ok := ins.(*ssa.MakeInterface)
						if !ok || !typeIs(mi.Type(), modPath+"/pkg/ast", "Statement") {
							continue
						}
						if _, fresh := mi.X.(*ssa.Alloc); fresh {
							continue
						}
						if derivesFrom(mi.X, func(v ssa.Value) bool {
							ta, ok := v.(*ssa.TypeAssert)
							if ok {
								// the kind of statement that is moved names the finding: hoisting another kind is another defect
								t := ta.AssertedType
								if pt, isP := t.(*types.Pointer); isP {
									t = pt.Elem()
								}
								if n := namedOf(t); n != nil && !strings.Contains(movedKind, n.Obj().Name()) {
									if movedKind != "" {
										movedKind += "+"
									}
									movedKind += n.Obj().Name()
								}
							}
							return false
						}); movedKind != "" {
							moved, at = true, inv.Pos()
						}
					}
				}
				if len(region.Preds) == 1 {
					suffix := ""
					if movedKind != "" {
						suffix = ":" + movedKind
					}
					c.ob("C03-R3", compilerPkg+".Optimizer.OptimizeStatements#licm-hoists-computation-not-declaration"+suffix, at, !moved, "loop-invariant code motion moves the program's own `$ t = e` out of the loop body: the declaration changes scope (a `t` of the enclosing scope makes the optimised program fail to compile with 'cannot redeclare', a `t` further out is shadowed for the code after the loop) and is executed even when the loop runs zero times")
				}
			}
		}
	}

	// ---- R4 folding cannot trap
	c.rule("C03-R4", "PAN: every Go integer / and % in the optimiser's folding code is dominated by a non-zero test of the divisor; no ==/!= fold compares an int literal converted to float with a float literal (the VM's equality is type-strict, so mixed-kind equality must not be folded)")
	nDiv := 0
	for _, fn := range c.srcFuncs(compilerPkg) {
		if !strings.HasSuffix(c.Fset.Position(fn.Pos()).Filename, "/optimizer.go") {
			continue
		}
		k := 0
		eachInstr(fn, func(_ *ssa.BasicBlock, _ int, ins ssa.Instruction) {
			bo, ok := ins.(*ssa.BinOp)
			if !ok {
				return
			}
			if bo.Op == token.QUO || bo.Op == token.REM {
				bt, ok := bo.X.Type().Underlying().(*types.Basic)
				if !ok || bt.Info()&types.IsInteger == 0 {
					return
				}
				if n, ok := constInt(bo.Y); ok && n != 0 {
					return
				}
				k++
				nDiv++
				q := &pathQuery{fn: fn, target: func(x ssa.Instruction) bool { return x == ins }, cutEdge: func(b *ssa.BasicBlock, si int) bool {
					iff := ifOf(b)
					if iff == nil {
						return false
					}
					for _, f := range neFacts(iff.Cond, si == 0) {
						for _, pr := range [][2]ssa.Value{{f.x, f.y}, {f.y, f.x}} {
							if sameVal(pr[0], bo.Y) {
								if n, ok := constInt(pr[1]); ok && n == 0 {
									return true
								}
							}
						}
					}
					return false
				}}
				hit, path := q.fromEntry()
				c.ob("C03-R4", fnKey(fn)+"#int-div-"+itoa(k), bo.Pos(), hit == nil, "constant folding divides by a literal not established non-zero: the compiler panics (or folds a runtime error away)", c.blockPath(path)...)
			}
			_ = bo
		})
		eachInstr(fn, func(_ *ssa.BasicBlock, _ int, ins ssa.Instruction) {
			// literal kinds are never converted into one another by the folder
			if cv, ok := ins.(*ssa.Convert); ok {
				src, ok1 := cv.X.Type().Underlying().(*types.Basic)
				dst, ok2 := cv.Type().Underlying().(*types.Basic)
				if ok1 && ok2 && src.Info()&types.IsInteger != 0 && dst.Info()&types.IsFloat != 0 {
					fromLit := derivesFrom(cv.X, func(v ssa.Value) bool {
						switch y := v.(type) {
						case *ssa.Field:
							return typeIs(y.X.Type(), astPath, "IntLiteral")
						case *ssa.FieldAddr:
							nt, _, ok := fieldOf(y)
							return ok && nt != nil && nt.Obj().Name() == "IntLiteral"
						}
						return false
					})
					if fromLit {
						k++
						c.ob("C03-R4", fnKey(fn)+"#int-literal-promoted-to-float-"+itoa(k), cv.Pos(), false, "the folder converts an int literal to float and folds the mixed-kind operation: for == / != the VM's type-strict equality gives the opposite answer at run time (1 == 1.0 is false on the VM)")
					}
				}
			}
			bo, ok := ins.(*ssa.BinOp)
			if !ok {
				return
			}
			if bo.Op == token.EQL || bo.Op == token.NEQ {
				if bt, ok := bo.X.Type().Underlying().(*types.Basic); ok && bt.Info()&types.IsFloat != 0 {
					mixed := false
					for _, o := range []ssa.Value{bo.X, bo.Y} {
						if cv, ok := o.(*ssa.Convert); ok {
							if st, ok := cv.X.Type().Underlying().(*types.Basic); ok && st.Info()&types.IsInteger != 0 {
								// the integer is the value of an int literal of the program (not, say, a small
								// constant a helper is asked to compare a float literal with)
								if derivesFrom(cv.X, func(v ssa.Value) bool {
									switch y := v.(type) {
									case *ssa.Field:
										return typeIs(y.X.Type(), astPath, "IntLiteral")
									case *ssa.FieldAddr:
										nt, _, ok := fieldOf(y)
										return ok && nt != nil && nt.Obj().Name() == "IntLiteral"
									}
									return false
								}) {
									mixed = true
								}
							}
						}
					}
					if mixed {
						k++
						c.ob("C03-R4", fnKey(fn)+"#mixed-kind-equality-fold-"+itoa(k), bo.Pos(), false, "an equality between an int literal (converted to float) and a float literal is folded: at run time the VM's type-strict equality gives the opposite answer")
					}
				}
			}
		})
	}
	if nDiv < 2 {
		c.undecided("C03-R4: %d integer divisions found in optimizer.go, floor 2", nDiv)
	}

	return true
}

// c03Plumbing: R5-R6 (reset before optimising, level plumbing).
// c03Flow: ordering and path rules over the arms of OptimizeStatements (also evaluated under C15-R9).
func c03Flow(c *Ctx) {
	c.rule("C03-R14", "MPT: a flow-insensitive fact map knows nothing about which branch ran: in the if arm of OptimizeStatements every path from the optimisation of the last branch to the next statement invalidates what the then-branch assigns and what the else-branch assigns (invalidate(getModifiedVariables(ThenBlock)) and ...(ElseBlock)), whatever the branches end in. Keeping one branch's facts because the other `always returns` is only as right as that predicate - an inner else-less `if` that returns is not an always-returning block - and the result changes once the route leaves the baseline tier")
	if os := c.mustFn("C03-R14", compilerPkg, "Optimizer.OptimizeStatements"); os != nil {
		fromIfField := func(v ssa.Value, field string) bool {
			return derivesFrom(v, func(z ssa.Value) bool {
				switch y := z.(type) {
				case *ssa.UnOp:
					return loadedFromField(y, "IfStatement", field)
				case *ssa.Field:
					if nt := namedOf(y.X.Type()); nt != nil && nt.Obj().Name() == "IfStatement" {
						return nt.Underlying().(*types.Struct).Field(y.Field).Name() == field
					}
				}
				return false
			})
		}
		var lastBranch ssa.Instruction
		eachInstr(os, func(_ *ssa.BasicBlock, _ int, ins ssa.Instruction) {
			cl, ok := ins.(*ssa.Call)
			if !ok || len(cl.Call.Args) < 2 || callName(cl) != modPath+"/"+compilerPkg+".Optimizer.OptimizeStatements" {
				return
			}
			// the branch optimisation of the general case: the else block itself, not the `live` branch picked for a
			// constant condition (a phi of the two)
			if _, isPhi := cl.Call.Args[1].(*ssa.Phi); !isPhi && fromIfField(cl.Call.Args[1], "ElseBlock") && !fromIfField(cl.Call.Args[1], "ThenBlock") {
				lastBranch = ins
			}
		})
		if lastBranch == nil {
			c.undecided("C03-R14: the optimisation of an if statement's else branch was not found in OptimizeStatements")
		} else {
			var outer *loop
			for _, lp := range naturalLoops(os) {
				if lp.body[lastBranch.Block()] && (outer == nil || len(lp.body) > len(outer.body)) {
					outer = lp
				}
			}
			for _, field := range []string{"ThenBlock", "ElseBlock"} {
				fld := field
				isInv := func(x ssa.Instruction) bool {
					cl, ok := x.(*ssa.Call)
					if !ok || len(cl.Call.Args) < 2 {
						return false
					}
					sf := staticFn(cl)
					if sf == nil || !strings.HasPrefix(strings.ToLower(sf.Name()), "invalidate") {
						return false
					}
					return derivesFrom(cl.Call.Args[1], func(z ssa.Value) bool {
						c2, ok := z.(*ssa.Call)
						return ok && strings.HasSuffix(callName(c2), ".getModifiedVariables") && fromIfField(c2.Call.Args[0], fld)
					})
				}
				q := &pathQuery{fn: os, stop: isInv, target: func(x ssa.Instruction) bool {
					return outer != nil && x.Block() == outer.head
				}}
				hit, path := q.after(lastBranch)
				c.ob("C03-R14", fnKey(os)+"#if-arm-forgets-what-"+fld+"-assigns-on-every-path", lastBranch.Pos(), hit == nil && outer != nil, "after an if statement the facts about the variables its "+fld+" assigns survive on some path (a shortcut for branches that `always return`): a later use of the variable is folded to the value one branch left, or to the value from before the if, although the other branch may have run", c.blockPath(path)...)
			}
		}
	}

	c.rule("C03-R13", "ORD: a loop's condition is evaluated before its body, so it is optimised with the facts that hold on entry: in the loop arms of OptimizeStatements the condition (WhileStatement.Condition) is handed to OptimizeExpression before the body is handed to OptimizeStatements - optimised afterwards it is folded with what the body's last statement left behind (`while again { ...; again = false }` becomes `while false`, `while cur != 0 { ...; cur = next }` tests next on entry)")
	if os := c.mustFn("C03-R13", compilerPkg, "Optimizer.OptimizeStatements"); os != nil {
		fromField := func(v ssa.Value, typ, field string) bool {
			return derivesFrom(v, func(z ssa.Value) bool {
				switch y := z.(type) {
				case *ssa.UnOp:
					return loadedFromField(y, typ, field)
				case *ssa.Field:
					if nt := namedOf(y.X.Type()); nt != nil && nt.Obj().Name() == typ {
						return nt.Underlying().(*types.Struct).Field(y.Field).Name() == field
					}
				}
				return false
			})
		}
		n := 0
		for _, typ := range []string{"WhileStatement"} {
			var conds, bodies []ssa.Instruction
			eachInstr(os, func(_ *ssa.BasicBlock, _ int, ins ssa.Instruction) {
				cl, ok := ins.(*ssa.Call)
				if !ok || len(cl.Call.Args) < 2 {
					return
				}
				switch callName(cl) {
				case modPath + "/" + compilerPkg + ".Optimizer.OptimizeExpression":
					if fromField(cl.Call.Args[1], typ, "Condition") {
						conds = append(conds, ins)
					}
				case modPath + "/" + compilerPkg + ".Optimizer.OptimizeStatements":
					// the call whose result becomes the optimised loop's body (hoisted invariant statements are optimised - and
					// run - before the loop)
					becomesBody := false
					for _, r := range refs(cl) {
						if st, ok := r.(*ssa.Store); ok && isStoreToField(st, typ, "Body") {
							becomesBody = true
						}
					}
					if becomesBody {
						bodies = append(bodies, ins)
					}
				}
			})
			for k, cd := range conds {
				n++
				bad := false
				var bp []*ssa.BasicBlock
				// another trip round the statement loop is another statement: cut the back edges of the outermost loop
				var outer *loop
				for _, lp := range naturalLoops(os) {
					if lp.body[cd.Block()] && (outer == nil || len(lp.body) > len(outer.body)) {
						outer = lp
					}
				}
				for _, bd := range bodies {
					q := &pathQuery{fn: os, target: func(x ssa.Instruction) bool { return x == cd }, cutEdge: func(bb *ssa.BasicBlock, si int) bool {
						return outer != nil && bb.Succs[si] == outer.head && outer.body[bb]
					}}
					if h, p := q.after(bd); h != nil {
						bad, bp = true, p
					}
				}
				c.ob("C03-R13", fnKey(os)+"#"+typ+"-condition-optimised-before-its-body-"+itoa(k+1), cd.Pos(), !bad && len(bodies) > 0, "the loop condition is optimised after the loop body: it is folded with the facts that hold after the body's last statement, which are right when the loop re-tests but wrong on entry", c.blockPath(bp)...)
			}
		}
		c.Sites["C03-R13#loop-conditions"] = n
		c.floor("C03-R13", 1)
	}

}

func c03Plumbing(c *Ctx) {
	// ---- R5 fresh facts per compilation unit
	c.rule("C03-R5", "MPT: Compiler.Reset re-creates the optimiser's fact maps (assigns a new Optimizer or re-makes all three maps), and every Compile* entry point that calls OptimizeStatements calls Reset first: facts never flow from one compiled unit into the next compiled by the same Compiler")
	if rs := c.mustFn("C03-R5", compilerPkg, "Compiler.Reset"); rs != nil {
		fresh := false
		eachInstr(rs, func(_ *ssa.BasicBlock, _ int, ins ssa.Instruction) {
			if st, ok := ins.(*ssa.Store); ok && isStoreToField(st, "Compiler", "optimizer") {
				if derivesFrom(st.Val, func(v ssa.Value) bool {
					cl, ok := v.(*ssa.Call)
					return ok && callName(cl) == compilerPath+".NewOptimizer"
				}) {
					fresh = true
				}
			}
		})
		if !fresh {
			n := 0
			eachInstr(rs, func(_ *ssa.BasicBlock, _ int, ins ssa.Instruction) {
				if st, ok := ins.(*ssa.Store); ok {
					for _, f := range []string{"constants", "copies", "expressions"} {
						if isStoreToField(st, "Optimizer", f) {
							if _, ok := st.Val.(*ssa.MakeMap); ok {
								n++
							}
						}
					}
				}
			})
			eachCall(rs, func(call ssa.CallInstruction) {
				if sf := staticFn(call); sf != nil && sf.Signature.Recv() != nil && typeIs(sf.Signature.Recv().Type(), compilerPath, "Optimizer") {
					m := 0
					eachInstr(sf, func(_ *ssa.BasicBlock, _ int, ins ssa.Instruction) {
						if st, ok := ins.(*ssa.Store); ok {
							if _, ok := st.Val.(*ssa.MakeMap); ok {
								m++
							}
						}
					})
					if m >= 3 {
						n = 3
					}
				}
			})
			fresh = n >= 3
		}
		c.ob("C03-R5", compilerPkg+".Compiler.Reset#discards-optimizer-facts", rs.Pos(), fresh, "Reset keeps the Optimizer and its fact maps: constants/copies learnt compiling one route are applied to the next route compiled by the same Compiler (setupRoutes compiles all routes with one)")
	}
	// every compile unit that hands a body to the optimiser (any function of the package outside the optimiser
	// itself) does so on a fact set that is new for that unit: Compiler.Reset ran first on every path, or the
	// Optimizer used is one created by NewOptimizer in this very function
	for _, fn := range c.srcFuncs(compilerPkg) {
		if fn.Signature.Recv() != nil {
			if rn := namedOf(fn.Signature.Recv().Type()); rn != nil && rn.Obj().Name() == "Optimizer" {
				continue
			}
		}
		var optCall *ssa.Call
		eachInstr(fn, func(_ *ssa.BasicBlock, _ int, ins ssa.Instruction) {
			if isCallTo(ins, compilerPath+".Optimizer.OptimizeStatements") && optCall == nil {
				optCall = ins.(*ssa.Call)
			}
		})
		if optCall == nil {
			continue
		}
		q := &pathQuery{fn: fn, target: func(x ssa.Instruction) bool { return x == ssa.Instruction(optCall) }, stop: func(x ssa.Instruction) bool {
			return isCallTo(x, compilerPath+".Compiler.Reset")
		}}
		hit, path := q.fromEntry()
		ok := hit == nil
		if !ok {
			// receiver of the call: loaded from a field of a Compiler allocated here whose optimizer field is a fresh NewOptimizer
			recv := optCall.Call.Args[0]
			if u, isLoad := recv.(*ssa.UnOp); isLoad {
				if fa, isFA := u.X.(*ssa.FieldAddr); isFA {
					if al, isAl := fa.X.(*ssa.Alloc); isAl {
						nSt, allFresh := 0, true
						for _, r := range refs(al) {
							if fa2, isFA2 := r.(*ssa.FieldAddr); isFA2 && fa2.Field == fa.Field {
								for _, rr := range refs(fa2) {
									if st, isSt := rr.(*ssa.Store); isSt && st.Addr == ssa.Value(fa2) {
										nSt++
										if !isCallTo(asInstr(st.Val), compilerPath+".NewOptimizer") {
											allFresh = false
										}
									}
								}
							}
						}
						ok = nSt > 0 && allFresh
					}
				}
			}
			if isCallTo(asInstr(recv), compilerPath+".NewOptimizer") {
				ok = true
			}
		}
		c.ob("C03-R5", fnKey(fn)+"#resets-before-optimizing", optCall.Pos(), ok, "this compile unit optimises a body on an Optimizer that still holds the facts of whatever was compiled before it (no Compiler.Reset on some path, and not an Optimizer created here): constants and copies of one body are propagated into the next", c.blockPath(path)...)
	}
	c.floor("C03-R5", 6)

	// ---- R6 level plumbing
	c.rule("C03-R6", "EXH/MPT: OptimizeStatements and OptimizeExpression return their input untouched at OptNone (the level test is the first branch and its true edge returns the parameter); jit tier -> level mapping is total (C15-R4)")
	for _, name := range []string{"Optimizer.OptimizeStatements", "Optimizer.OptimizeExpression"} {
		fn := c.mustFn("C03-R6", compilerPkg, name)
		if fn == nil {
			continue
		}
		ok := false
		if iff := ifOf(fn.Blocks[0]); iff != nil {
			if bo, isBO := iff.Cond.(*ssa.BinOp); isBO && bo.Op == token.EQL && loadedFromField(bo.X, "Optimizer", "level") {
				if k, isK := constInt(bo.Y); isK && k == 0 {
					for _, ins := range fn.Blocks[0].Succs[0].Instrs {
						if r, isR := ins.(*ssa.Return); isR && stripConv(retVals(r)[0]) == ssa.Value(fn.Params[1]) {
							ok = true
						}
					}
				}
			}
		}
		c.ob("C03-R6", compilerPkg+"."+name+"#OptNone-is-identity", fn.Pos(), ok, "at optimisation level 0 the optimiser does not return its input unchanged as its first action")
	}
	for _, name := range []string{"JITCompiler.compileWithTier"} {
		if d := c.decl(jitPkg, name); d != nil {
			for i, cov := range switchConstCoverage(c, jitPkg, d, jitPath, "OptimizationTier") {
				c.ob("C03-R6", jitPkg+"."+name+"#tier-switch-"+itoa(i+1), cov.pos, len(cov.missing) == 0 || cov.hasDefault, "tier switch has no arm for "+strings.Join(cov.missing, ","))
			}
		}
	}
}

// c03Aliasing: R7 (fact tables are never aliased) and R8 (the optimiser never writes into a syntax-tree node it was given).
func c03Aliasing(c *Ctx) {
	c.rule("C03-R7", "ALIAS: every map stored into a field of Optimizer / optimizerFacts that outlives the statement (the receiver, a parameter, a returned value) is a fresh map - made in that function or returned fresh by a package function - never another fact table's map: a snapshot that shares its maps with the live facts is modified by the branch it is meant to undo")
	fns := c.srcFuncs(compilerPkg)
	isFactOwner := func(n *types.Named) bool {
		return n != nil && n.Obj().Pkg() != nil && n.Obj().Pkg().Path() == modPath+"/"+compilerPkg && (n.Obj().Name() == "Optimizer" || n.Obj().Name() == "optimizerFacts")
	}
	var freshMap func(v ssa.Value, d int) bool
	returnsFresh := map[*ssa.Function]int{} // 0 unknown, 1 yes, 2 no
	freshMap = func(v ssa.Value, d int) bool {
		if d > 24 {
			return false
		}
		switch x := v.(type) {
		case *ssa.MakeMap:
			return true
		case *ssa.Const:
			return x.IsNil()
		case *ssa.Phi:
			for _, e := range x.Edges {
				if !freshMap(e, d+1) {
					return false
				}
			}
			return true
		case *ssa.Field: // field of a struct value: the struct must come from a call returning fresh maps
			return freshMap(x.X, d+1)
		case *ssa.Extract:
			return freshMap(x.Tuple, d+1)
		case *ssa.UnOp:
			if x.Op != token.MUL {
				return false
			}
			switch a := x.X.(type) {
			case *ssa.FieldAddr: // load of a field of a local struct cell
				if al, ok := a.X.(*ssa.Alloc); ok {
					return cellFieldFresh(al, a.Field, freshMap, d+1)
				}
				return false
			case *ssa.Alloc:
				okAll, n := true, 0
				for _, r := range refs(a) {
					if st, ok := r.(*ssa.Store); ok && st.Addr == ssa.Value(a) {
						n++
						if !freshMap(st.Val, d+1) {
							okAll = false
						}
					}
				}
				return okAll && n > 0
			}
			return false
		case *ssa.Call:
			g := staticFn(x)
			if g == nil || g.Pkg == nil || g.Pkg.Pkg.Path() != modPath+"/"+compilerPkg {
				return false
			}
			switch returnsFresh[g] {
			case 1:
				return true
			case 2:
				return false
			}
			returnsFresh[g] = 2 // recursion guard
			okAll, n := true, 0
			eachInstr(g, func(_ *ssa.BasicBlock, _ int, ins ssa.Instruction) {
				if r, ok := ins.(*ssa.Return); ok {
					for _, rv := range retVals(r) {
						n++
						// struct result: every map field fresh
						if stt, ok := rv.Type().Underlying().(*types.Struct); ok {
							for i := 0; i < stt.NumFields(); i++ {
								if _, isMap := stt.Field(i).Type().Underlying().(*types.Map); !isMap {
									continue
								}
								if !structFieldFresh(rv, i, freshMap, d+1) {
									okAll = false
								}
							}
						} else if _, isMap := rv.Type().Underlying().(*types.Map); isMap {
							if !freshMap(rv, d+1) {
								okAll = false
							}
						}
					}
				}
			})
			if okAll && n > 0 {
				returnsFresh[g] = 1
				return true
			}
			return false
		}
		return false
	}
	n := 0
	for _, fn := range fns {
		k := 0
		eachInstr(fn, func(_ *ssa.BasicBlock, _ int, ins ssa.Instruction) {
			st, ok := ins.(*ssa.Store)
			if !ok {
				return
			}
			if _, isMap := st.Val.Type().Underlying().(*types.Map); !isMap {
				return
			}
			fa, ok := st.Addr.(*ssa.FieldAddr)
			if !ok {
				return
			}
			named, fld, ok := fieldOf(st.Addr)
			if !ok || !isFactOwner(named) {
				return
			}
			// a cell that never leaves the function and is only read back here is a temporary (e.g. the
			// throw-away Optimizer that restoreFacts copies from)
			if al, ok := fa.X.(*ssa.Alloc); ok && !escapesAsOwner(al) {
				return
			}
			k++
			n++
			c.ob("C03-R7", fnKey(fn)+"#fact-map-stored-fresh:"+fld+"-"+itoa(k), st.Pos(), freshMap(st.Val, 0),
				"the map stored into "+named.Obj().Name()+"."+fld+" is not a fresh map but one that another fact table (snapshot, parameter) still refers to: optimising the other branch writes into the snapshot, the restore that follows undoes nothing, and facts learnt on a path that may not execute survive the join")
		})
	}
	c.Sites["C03-R7#fact-map-stores"] = n
	c.floor("C03-R7", 6)

	c.rule("C03-R8", "ALIAS: optimiser code never stores into a field of a syntax-tree node it did not allocate itself (store through a pointer to a pkg/ast type whose base is not a fresh allocation of this function): the caller's tree - shared between optimisation levels, JIT tiers and repeated compilations, or built through the library API with shared nodes - keeps its meaning")
	nSt := 0
	for _, fn := range fns {
		top := topParent(fn)
		if top.Signature.Recv() == nil {
			continue
		}
		if rn := namedOf(top.Signature.Recv().Type()); rn == nil || rn.Obj().Name() != "Optimizer" {
			continue
		}
		k := 0
		eachInstr(fn, func(_ *ssa.BasicBlock, _ int, ins ssa.Instruction) {
			st, ok := ins.(*ssa.Store)
			if !ok {
				return
			}
			base := st.Addr
			for {
				switch a := base.(type) {
				case *ssa.FieldAddr:
					base = a.X
					continue
				case *ssa.IndexAddr:
					base = a.X
					continue
				}
				break
			}
			if base == st.Addr {
				return
			}
			pt, ok := base.Type().Underlying().(*types.Pointer)
			if !ok {
				return
			}
			en := namedOf(pt.Elem())
			if en == nil || en.Obj().Pkg() == nil || en.Obj().Pkg().Path() != modPath+"/pkg/ast" {
				return
			}
			nSt++
			fresh := false
			if al, ok := base.(*ssa.Alloc); ok {
				fresh = true
				_ = al
			}
			if !fresh {
				k++
				c.ob("C03-R8", fnKey(fn)+"#writes-into-given-ast-node:"+en.Obj().Name()+"-"+itoa(k), st.Pos(), false,
					"the optimiser assigns to a field of an *ast."+en.Obj().Name()+" it received (not one it allocated): facts that hold at this program point leak to every other holder of the node, and compiling the same tree again at another level no longer sees the original program")
			}
		})
	}
	c.Sites["C03-R8#stores-into-ast-nodes-examined"] = nSt
	c.ob("C03-R8", compilerPkg+".Optimizer#never-writes-into-given-ast-nodes", token.NoPos, true, "")
}

// structFieldFresh: field i of struct value rv (a load of a local cell, or a call result) holds a fresh map.
func structFieldFresh(rv ssa.Value, i int, freshMap func(ssa.Value, int) bool, d int) bool {
	if d > 24 {
		return false
	}
	if u, ok := rv.(*ssa.UnOp); ok && u.Op == token.MUL {
		if al, ok := u.X.(*ssa.Alloc); ok {
			return cellFieldFresh(al, i, freshMap, d+1)
		}
	}
	if call, ok := rv.(*ssa.Call); ok {
		return freshMap(call, d)
	}
	return false
}

// cellFieldFresh: every store that can define field i of the local struct cell al stores a fresh map
// (field stores, and whole-struct stores from another fresh struct value).
func cellFieldFresh(al *ssa.Alloc, i int, freshMap func(ssa.Value, int) bool, d int) bool {
	okAll, n := true, 0
	for _, r := range refs(al) {
		switch y := r.(type) {
		case *ssa.FieldAddr:
			if y.Field != i {
				continue
			}
			for _, rr := range refs(y) {
				if st, ok := rr.(*ssa.Store); ok && st.Addr == ssa.Value(y) {
					n++
					if !freshMap(st.Val, d+1) {
						okAll = false
					}
				}
			}
		case *ssa.Store:
			if y.Addr == ssa.Value(al) {
				n++
				if !structFieldFresh(y.Val, i, freshMap, d+1) {
					okAll = false
				}
			}
		}
	}
	return okAll && n > 0
}

// escapesAsOwner: the cell is returned, stored somewhere, or captured - i.e. may outlive / be seen outside the function.
// Being the receiver of a method call does not count.
func escapesAsOwner(al *ssa.Alloc) bool {
	for _, r := range refs(al) {
		switch x := r.(type) {
		case *ssa.FieldAddr, *ssa.UnOp:
		case *ssa.Call:
			if len(x.Call.Args) > 0 && x.Call.Args[0] == ssa.Value(al) && !x.Call.IsInvoke() && x.Call.StaticCallee() != nil && x.Call.StaticCallee().Signature.Recv() != nil {
				for _, a := range x.Call.Args[1:] {
					if a == ssa.Value(al) {
						return true
					}
				}
				continue
			}
			return true
		case *ssa.Store:
			if x.Val == ssa.Value(al) {
				return true
			}
		case *ssa.DebugRef:
		default:
			return true
		}
	}
	return false
}

// c03Kill: R9 - an assignment kills every fact depending on its target before new facts are recorded.
func c03Kill(c *Ctx) {
	c.rule("C03-R9", "GEN/KILL: in OptimizeStatements every recording of a fact (update of Optimizer.constants / copies / expressions) is preceded, within the handling of the same statement, by a call to a complete killer for the assigned variable; a complete killer deletes the variable's own entries and sweeps the copy table and the expression table (range + delete on each), so copies of the variable and remembered expressions that read it or are held in it do not outlive the assignment")
	fn := c.mustFn("C03-R9", compilerPkg, "Optimizer.OptimizeStatements")
	if fn == nil {
		return
	}
	factMaps := []string{"constants", "copies", "expressions"}
	isFactMap := func(v ssa.Value) string {
		for _, f := range factMaps {
			if loadedFromField(v, "Optimizer", f) {
				return f
			}
		}
		return ""
	}
	// complete killers by shape
	killer := map[*ssa.Function]bool{}
	for _, g := range c.srcFuncs(compilerPkg) {
		if g.Parent() != nil || g.Signature.Recv() == nil {
			continue
		}
		deletes := map[string]bool{}
		ranges := map[string]bool{}
		// the killer's work may be split over methods it calls on its own receiver (killCopies + killExpressions)
		records := false // a function that also records facts is not a killer, whatever it calls
		var scan func(h *ssa.Function, depth int)
		scan = func(h *ssa.Function, depth int) {
			eachInstr(h, func(_ *ssa.BasicBlock, _ int, ins ssa.Instruction) {
				switch x := ins.(type) {
				case *ssa.MapUpdate:
					if isFactMap(x.Map) != "" {
						records = true
					}
				case *ssa.Call:
					if callName(x) == "builtin.delete" {
						if f := isFactMap(x.Call.Args[0]); f != "" {
							deletes[f] = true
						}
					}
					if sf := staticFn(x); sf != nil && depth < 2 && sf != h && sf.Signature.Recv() != nil && len(h.Params) > 0 && len(x.Call.Args) > 0 && x.Call.Args[0] == ssa.Value(h.Params[0]) && sf.Signature.Results().Len() == 0 {
						scan(sf, depth+1)
					}
				case *ssa.Range:
					if f := isFactMap(x.X); f != "" {
						ranges[f] = true
					}
				}
			})
		}
		scan(g, 0)
		if !records && deletes["constants"] && deletes["copies"] && deletes["expressions"] && ranges["copies"] && ranges["expressions"] {
			killer[g] = true
		}
	}
	// bulk killers: call a killer for every element of a set
	for round := 0; round < 2; round++ {
		for _, g := range c.srcFuncs(compilerPkg) {
			if g.Parent() != nil || killer[g] || g == fn {
				continue
			}
			calls, other := false, false
			eachInstr(g, func(_ *ssa.BasicBlock, _ int, ins ssa.Instruction) {
				switch x := ins.(type) {
				case *ssa.Call:
					if sf := staticFn(x); sf != nil && killer[sf] {
						calls = true
					}
				case *ssa.MapUpdate:
					other = true
				}
			})
			if calls && !other && g.Signature.Recv() != nil && g.Signature.Results().Len() == 0 {
				killer[g] = true
			}
		}
	}
	c.ob("C03-R9", compilerPkg+".Optimizer#complete-killer-exists", fn.Pos(), len(killer) > 0, "no Optimizer method deletes a variable's entries from all three fact tables and sweeps the copy and expression tables: reassigning a variable leaves copies of its old value and expressions computed from it in force")
	if len(killer) == 0 {
		return
	}
	isKill := func(x ssa.Instruction) bool {
		call, ok := x.(*ssa.Call)
		if !ok {
			return false
		}
		sf := staticFn(call)
		return sf != nil && killer[sf]
	}
	// Facts are recorded in OptimizeStatements itself or in a helper it calls for an assignment. In the statement
	// loop "the same statement" is one trip round the outermost loop containing the update; in a helper it is the call.
	n := 0
	for _, g := range c.srcFuncs(compilerPkg) {
		if g.Parent() != nil || killer[g] || g.Signature.Recv() == nil {
			continue
		}
		if rn := namedOf(g.Signature.Recv().Type()); rn == nil || rn.Obj().Name() != "Optimizer" {
			continue
		}
		loops := naturalLoops(g)
		eachInstr(g, func(b *ssa.BasicBlock, _ int, ins ssa.Instruction) {
			mu, ok := ins.(*ssa.MapUpdate)
			if !ok {
				return
			}
			f := isFactMap(mu.Map)
			if f == "" {
				return
			}
			n++
			var outer *loop
			for _, lp := range loops {
				if lp.body[b] && (outer == nil || len(lp.body) > len(outer.body)) {
					outer = lp
				}
			}
			q := &pathQuery{fn: g, target: func(x ssa.Instruction) bool { return x == ins }, stop: isKill}
			var hit ssa.Instruction
			var path []*ssa.BasicBlock
			if outer != nil {
				q.cutEdge = func(bb *ssa.BasicBlock, si int) bool { return bb.Succs[si] == outer.head && outer.body[bb] }
				hit, path = q.from(outer.head, 0)
			} else {
				hit, path = q.fromEntry()
			}
			c.ob("C03-R9", fnKey(g)+"#fact-recorded-only-after-kill:"+f+"-"+itoa(n), ins.Pos(), hit == nil,
				"a fact is written into Optimizer."+f+" on a path that has not killed the facts depending on the assigned variable in this statement: copies of its old value (`$ y = x; x = ...; > y`) and remembered expressions that read it stay in force and later uses are rewritten to stale values", c.blockPath(path)...)
		})
	}
	c.Sites["C03-R9#fact-recordings"] = n
	c.floor("C03-R9", 3)
	// a remembered expression must not read its own target: the recording of expressions[key] = target is guarded by a test involving both
	// (decided as: every update of .expressions lies behind a branch on a call taking the key and the target)
	for _, fn := range c.srcFuncs(compilerPkg) {
		if fn.Parent() != nil || killer[fn] || fn.Signature.Recv() == nil {
			continue
		}
		eachInstr(fn, func(_ *ssa.BasicBlock, _ int, ins ssa.Instruction) {
			mu, ok := ins.(*ssa.MapUpdate)
			if !ok || isFactMap(mu.Map) != "expressions" {
				return
			}
			guarded := false
			for x := ins.Block(); x != nil; x = x.Idom() {
				p := x.Idom()
				if p == nil {
					break
				}
				iff := ifOf(p)
				if iff == nil {
					continue
				}
				if derivesFrom(iff.Cond, func(v ssa.Value) bool {
					call, ok := v.(*ssa.Call)
					if !ok || len(call.Call.Args) < 2 {
						return false
					}
					hasKey, hasTarget := false, false
					for _, a := range call.Call.Args {
						if a == mu.Key {
							hasKey = true
						}
						if sameVal(a, mu.Value) || a == mu.Value {
							hasTarget = true
						}
					}
					return hasKey && hasTarget
				}) {
					guarded = true
				}
			}
			c.ob("C03-R9", fnKey(fn)+"#remembered-expression-does-not-read-its-target@"+itoa(int(ins.Pos())-int(fn.Pos())), ins.Pos(), guarded,
				"an expression is remembered as held in its target without testing that it does not read that target (`a = a + 1` would record that a holds a+1, which is false one statement later)")
		})
	}
}

func asInstr(v ssa.Value) ssa.Instruction {
	ins, _ := v.(ssa.Instruction)
	return ins
}

// c03Keys: part of R9 - the text keys under which expressions are remembered identify the expression exactly.
func c03Keys(c *Ctx) {
	ek := c.fn(compilerPkg, "exprKey")
	if ek == nil {
		c.info("C03-R9", compilerPkg+"#no-exprKey", token.NoPos, "no expression-key function")
		return
	}
	// the kill finds a remembered expression by the token `var:<name>` followed by a delimiter: wherever the optimiser
	// writes a `var:` token, what follows the prefix is the Name of a VariableExpr and nothing else (not a dotted
	// path, not a name with a suffix) - otherwise reassigning the variable leaves the remembered value in force
	{
		isVarName := func(v ssa.Value) bool {
			if mi, ok := v.(*ssa.MakeInterface); ok {
				v = mi.X
			}
			v = stripConv(v)
			if loadedFromField(v, "VariableExpr", "Name") {
				return true
			}
			if fl, ok := v.(*ssa.Field); ok {
				if nt := namedOf(fl.X.Type()); nt != nil && nt.Obj().Name() == "VariableExpr" {
					return nt.Underlying().(*types.Struct).Field(fl.Field).Name() == "Name"
				}
			}
			return false
		}
		n := 0
		for _, fn := range c.srcFuncs(compilerPkg) {
			k := 0
			eachInstr(fn, func(_ *ssa.BasicBlock, _ int, ins ssa.Instruction) {
				switch x := ins.(type) {
				case *ssa.Call:
					if !strings.HasPrefix(callName(x), "fmt.Sprint") || len(x.Call.Args) == 0 {
						return
					}
					fs, ok := constString(x.Call.Args[0])
					if !ok || !strings.Contains(fs, "var:") {
						return
					}
					n++
					k++
					okShape := fs == "var:%s"
					if okShape && len(x.Call.Args) > 1 {
						// the variadic slice holds exactly the name
						okShape = false
						if sl, ok := x.Call.Args[1].(*ssa.Slice); ok {
							if al, ok := sl.X.(*ssa.Alloc); ok {
								for _, r := range refs(al) {
									if ia, ok := r.(*ssa.IndexAddr); ok {
										for _, rr := range refs(ia) {
											if st, ok := rr.(*ssa.Store); ok && st.Addr == ssa.Value(ia) && isVarName(st.Val) {
												okShape = true
											}
										}
									}
								}
							}
						}
					}
					c.ob("C03-R9", fnKey(fn)+"#var-token-is-a-variable-name-"+itoa(k), x.Pos(), okShape, "a `var:` token of an expression key is followed by something other than the bare name of a variable (a dotted field path, a suffix): the killer looks for `var:<name>` followed by a delimiter and does not find it, so reassigning the variable leaves the remembered expression in force and a later identical expression reuses a value computed from the old object")
				case *ssa.BinOp:
					if x.Op != token.ADD {
						return
					}
					// a token produced by the printer itself (a recursive call) is continued with a suffix: `var:cfg` + ".rate"
					if cl, ok := x.X.(*ssa.Call); ok && staticFn(cl) == fn {
						if sv, ok := constString(x.Y); ok && sv != "" && !(strings.HasPrefix(sv, " ") || strings.HasPrefix(sv, ")")) {
							n++
							k++
							c.ob("C03-R9", fnKey(fn)+"#var-token-is-a-variable-name-"+itoa(k), x.Pos(), false, "the printer appends "+strconv.Quote(sv)+" to a key it produced itself: a `var:` token grows into a dotted path (`var:cfg.rate`) that the killer, which looks for `var:<name>` followed by a delimiter, does not recognise - reassigning cfg leaves `(Add var:cfg.rate int:1)` in force and a later identical expression reuses the value computed from the old object")
						}
					}
					if sv, ok := constString(x.X); ok && strings.HasSuffix(sv, "var:") {
						n++
						k++
						// … and the token is not continued: whatever is appended to it starts with a delimiter the killer accepts
						continued := false
						for _, r := range refs(x) {
							if b2, ok := r.(*ssa.BinOp); ok && b2.Op == token.ADD && b2.X == ssa.Value(x) {
								if sv, ok := constString(b2.Y); !ok || !(strings.HasPrefix(sv, " ") || strings.HasPrefix(sv, ")")) {
									continued = true
								}
							}
						}
						c.ob("C03-R9", fnKey(fn)+"#var-token-is-a-variable-name-"+itoa(k), x.Pos(), (isVarName(x.Y) || isParam(x.Y)) && !continued, "a `var:` token of an expression key is followed by something other than the bare name of a variable (a dotted field path, a suffix): the killer looks for `var:<name>` followed by a delimiter and does not find it, so reassigning the variable leaves the remembered expression in force")
					}
				}
			})
		}
		c.Sites["C03-R9#var-tokens"] = n
	}
	// exprKey and the package functions it calls (one level)
	fns := map[*ssa.Function]bool{ek: true}
	eachCall(ek, func(call ssa.CallInstruction) {
		if sf := staticFn(call); sf != nil && sf.Pkg != nil && sf.Pkg.Pkg.Path() == modPath+"/"+compilerPkg {
			fns[sf] = true
		}
	})
	n := 0
	for fn := range fns {
		eachCall(fn, func(call ssa.CallInstruction) {
			args := call.Common().Args
			switch callName(call) {
			case "fmt.Sprintf":
				f, ok := constString(args[0])
				if !ok {
					return
				}
				lossy := regexp.MustCompile(`%[-+ #0]*[0-9]*(\.[0-9]*)?[feEGF]`).MatchString(f) || regexp.MustCompile(`%[-+ #0]*[0-9]*\.[0-9]+[gv]`).MatchString(f)
				n++
				// a string payload embedded with %s is ambiguous (it can contain the key's own separators)
				if strings.Contains(f, "%s") && len(args) > 1 {
					if derivesFrom(args[1], func(v ssa.Value) bool {
						nt, fld, ok := fieldOf(v)
						return ok && nt != nil && nt.Obj().Name() == "StringLiteral" && fld == "Value"
					}) {
						lossy = true
					}
				}
				c.ob("C03-R9", fnKey(fn)+"#key-format-is-exact:"+f, call.Pos(), !lossy, "an expression key is built with the fixed-precision format "+f+": two different float constants that agree in the printed digits share one key, and common-subexpression elimination replaces one computation by the other's result")
			case "strconv.FormatFloat":
				n++
				prec, ok := constInt(args[2])
				c.ob("C03-R9", fnKey(fn)+"#key-format-is-exact:FormatFloat", call.Pos(), ok && prec == -1, "an expression key formats a float with a fixed precision: distinct constants can share one key")
			}
		})
	}
	c.Sites["C03-R9#key-formatting-calls"] = n
	// operand order: a key may treat `l op r` and `r op l` as one computation only for operators that commute for
	// every operand type. `+` is also string concatenation, `&&`/`||` short-circuit, so only * == != qualify.
	allowed := map[int64]bool{}
	if ap := c.Pkgs[modPath+"/pkg/ast"]; ap != nil {
		for _, nm := range []string{"Mul", "Eq", "Ne"} {
			if k, ok := ap.Types.Scope().Lookup(nm).(*types.Const); ok {
				if v, ok := constant.Int64Val(k.Val()); ok {
					allowed[v] = true
				}
			}
		}
	}
	fromField := func(v ssa.Value, field string) bool {
		return derivesFrom(v, func(x ssa.Value) bool {
			switch y := x.(type) {
			case *ssa.Field:
				return y.X.Type().Underlying().(*types.Struct).Field(y.Field).Name() == field
			case *ssa.FieldAddr:
				return y.X.Type().Underlying().(*types.Pointer).Elem().Underlying().(*types.Struct).Field(y.Field).Name() == field
			}
			return false
		})
	}
	isOpLoad := func(v ssa.Value) bool {
		switch y := stripConv(v).(type) {
		case *ssa.UnOp:
			if fa, ok := y.X.(*ssa.FieldAddr); ok {
				return fa.X.Type().Underlying().(*types.Pointer).Elem().Underlying().(*types.Struct).Field(fa.Field).Name() == "Op"
			}
		case *ssa.Field:
			return y.X.Type().Underlying().(*types.Struct).Field(y.Field).Name() == "Op"
		}
		return false
	}
	// predicate P(op) answering true only for allowed operators
	safePred := func(sf *ssa.Function) bool {
		if sf == nil || len(sf.Params) != 1 || len(sf.Blocks) == 0 {
			return false
		}
		ok := true
		eachInstr(sf, func(b *ssa.BasicBlock, _ int, ins ssa.Instruction) {
			r, isRet := ins.(*ssa.Return)
			if !isRet || isConstBool(retVals(r)[0], false) {
				return
			}
			// every way into this return established op == one of the allowed constants
			q := &pathQuery{fn: sf, target: func(x ssa.Instruction) bool { return x == ins }, cutEdge: func(bb *ssa.BasicBlock, si int) bool {
				iff := ifOf(bb)
				if iff == nil {
					return false
				}
				for _, f := range eqFacts(iff.Cond, si == 0) {
					for _, pr := range [][2]ssa.Value{{f.x, f.y}, {f.y, f.x}} {
						if stripConv(pr[0]) == ssa.Value(sf.Params[0]) {
							if k, isK := constInt(pr[1]); isK && allowed[k] {
								return true
							}
						}
					}
				}
				return false
			}}
			if hit, _ := q.fromEntry(); hit != nil {
				ok = false
			}
		})
		return ok
	}
	nSwap := 0
	eachInstr(ek, func(b *ssa.BasicBlock, _ int, ins ssa.Instruction) {
		phi, ok := ins.(*ssa.Phi)
		if !ok {
			return
		}
		if bt, ok := phi.Type().Underlying().(*types.Basic); !ok || bt.Kind() != types.String {
			return
		}
		l, r := false, false
		for _, e := range phi.Edges {
			if fromField(e, "Left") {
				l = true
			}
			if fromField(e, "Right") {
				r = true
			}
		}
		if !(l && r) {
			return
		}
		nSwap++
		// the edges that bring the *other* operand in must be unreachable unless the operator is one of the allowed
		cut := func(bb *ssa.BasicBlock, si int) bool {
			iff := ifOf(bb)
			if iff == nil {
				return false
			}
			for _, f := range eqFacts(iff.Cond, si == 0) {
				for _, pr := range [][2]ssa.Value{{f.x, f.y}, {f.y, f.x}} {
					if isOpLoad(pr[0]) {
						if k, isK := constInt(pr[1]); isK && allowed[k] {
							return true
						}
					}
				}
			}
			cond, truth := iff.Cond, si == 0
			for {
				u, isNot := cond.(*ssa.UnOp)
				if !isNot || u.Op != token.NOT {
					break
				}
				cond, truth = u.X, !truth
			}
			if call, isCall := cond.(*ssa.Call); isCall && truth && len(call.Call.Args) == 1 && isOpLoad(call.Call.Args[0]) && safePred(call.Call.StaticCallee()) {
				return true
			}
			return false
		}
		bad := false
		// the block in which operands are exchanged: a predecessor edge of this phi reached only via the swap branch;
		// conservatively require every predecessor that is not the straight-line one to be guarded
		for i := range phi.Edges {
			pred := phi.Block().Preds[i]
			if len(pred.Preds) == 0 || pred.Dominates(phi.Block()) {
				continue // the fall-through (unswapped) way in
			}
			q := &pathQuery{fn: ek, cutEdge: cut, target: func(x ssa.Instruction) bool { return x.Block() == pred }}
			if hit, _ := q.fromEntry(); hit != nil {
				bad = true
			}
		}
		c.ob("C03-R9", fnKey(ek)+"#operand-order-normalised-only-for-commuting-operators-"+itoa(nSwap), phi.Pos(), !bad, "the expression key exchanges the two operands (so that `l op r` and `r op l` share a key) for operators that do not commute for every operand type: `+` concatenates strings, so `a + b` is reused for `b + a` and \"AdaLovelace\" is returned where \"LovelaceAda\" is due")
	})
	c.Sites["C03-R9#operand-order-normalisations"] = nSwap
}

// c03Rebuild: R10 (rebuilt nodes are complete) and R11 (no scope flattening).
func c03Rebuild(c *Ctx) {
	c.rule("C03-R10", "COPY: when an optimiser arm rebuilds a syntax-tree node of the same type as the node it matched, the new node sets every scalar field of that type (status codes, variable names, operators): a scalar left out silently takes its zero value - `> v :: 201` lost its status, a loop would lose its key variable")
	astPathL := modPath + "/pkg/ast"
	n := 0
	for _, fn := range c.srcFuncs(compilerPkg) {
		top := topParent(fn)
		if top.Signature.Recv() == nil {
			continue
		}
		if rn := namedOf(top.Signature.Recv().Type()); rn == nil || rn.Obj().Name() != "Optimizer" {
			continue
		}
		// node types this function matches by type assertion / type switch
		matched := map[string]bool{}
		eachInstr(fn, func(_ *ssa.BasicBlock, _ int, ins ssa.Instruction) {
			if ta, ok := ins.(*ssa.TypeAssert); ok {
				if nt := namedOf(ta.AssertedType); nt != nil && nt.Obj().Pkg() != nil && nt.Obj().Pkg().Path() == astPathL {
					matched[nt.Obj().Name()] = true
				}
			}
		})
		k := 0
		eachInstr(fn, func(b *ssa.BasicBlock, _ int, ins ssa.Instruction) {
			al, ok := ins.(*ssa.Alloc)
			if !ok {
				return
			}
			nt := namedOf(al.Type().(*types.Pointer).Elem())
			if nt == nil || nt.Obj().Pkg() == nil || nt.Obj().Pkg().Path() != astPathL || !matched[nt.Obj().Name()] {
				return
			}
			st, ok := nt.Underlying().(*types.Struct)
			if !ok || st.NumFields() < 2 {
				return
			}
			// only rebuilds made while handling a node of that very type: the block is dominated by the ok-edge of an assertion to it
			inArm := false
			eachInstr(fn, func(_ *ssa.BasicBlock, _ int, x ssa.Instruction) {
				ta, ok := x.(*ssa.TypeAssert)
				if !ok {
					return
				}
				if an := namedOf(ta.AssertedType); an == nil || an.Obj() != nt.Obj() {
					return
				}
				if ta.Block().Dominates(b) {
					inArm = true
				}
			})
			if !inArm {
				return
			}
			set := map[int]bool{}
			whole := false
			for _, r := range refs(al) {
				if ws, ok := r.(*ssa.Store); ok && ws.Addr == ssa.Value(al) {
					whole = true // a copy of the whole node (value-form arm binding)
				}
				if fa, ok := r.(*ssa.FieldAddr); ok {
					for _, rr := range refs(fa) {
						if s2, ok := rr.(*ssa.Store); ok && s2.Addr == ssa.Value(fa) {
							set[fa.Field] = true
						}
					}
				}
			}
			if whole {
				return
			}
			// scalar parts (status, variable names, operators): leaving out a block or an expression is a visible
			// transformation judged by the other rules; a scalar left out is lost without trace
			var missing []string
			for i := 0; i < st.NumFields(); i++ {
				f := st.Field(i)
				if _, isBasic := f.Type().Underlying().(*types.Basic); !set[i] && isBasic {
					missing = append(missing, f.Name())
				}
			}
			n++
			k++
			c.ob("C03-R10", fnKey(fn)+"#rebuilt-"+nt.Obj().Name()+"-is-complete-"+itoa(k), al.Pos(), len(missing) == 0, "the "+nt.Obj().Name()+" built here to replace the matched one does not set {"+strings.Join(missing, ", ")+"}: the optimised program silently loses that part of the statement")
		})
	}
	c.Sites["C03-R10#rebuilt-nodes"] = n
	c.floor("C03-R10", 4)

	c.rule("C03-R11", "SCOPE: the statements of a nested block (ThenBlock / ElseBlock / a loop body) are appended to the enclosing statement list only behind a test that the block declares no variable: a block is a scope, and a `$ y` moved out of it collides with or shadows the enclosing scope's `y` (the optimised program then fails to compile, or reads another variable). Hoisting by loop-invariant code motion is judged by C03-R3")
	if fn := c.fn(compilerPkg, "Optimizer.OptimizeStatements"); fn != nil {
		k := 0
		eachInstr(fn, func(b *ssa.BasicBlock, _ int, ins ssa.Instruction) {
			call, ok := ins.(*ssa.Call)
			if !ok {
				return
			}
			bi, ok := call.Call.Value.(*ssa.Builtin)
			if !ok || bi.Name() != "append" || len(call.Call.Args) != 2 {
				return
			}
			// the appended slice comes from optimising a block field of the matched statement
			fromNested := func(v ssa.Value) bool {
				return derivesFrom(v, func(x ssa.Value) bool {
					rc, ok := x.(*ssa.Call)
					if !ok || staticFn(rc) != fn {
						return false
					}
					if sl, isSl := rc.Call.Args[1].(*ssa.Slice); isSl {
						if _, isLit := sl.X.(*ssa.Alloc); isLit {
							return false // a one-statement list built here (loop-invariant hoisting: C03-R3)
						}
					}
					return derivesFrom(rc.Call.Args[1], func(y ssa.Value) bool {
						_, f, ok := fieldOf(y)
						return ok && (f == "ThenBlock" || f == "ElseBlock" || f == "Body" || f == "Default")
					})
				})
			}
			if !fromNested(call.Call.Args[1]) {
				return
			}
			if _, isFreshArr := call.Call.Args[1].(*ssa.Slice); isFreshArr {
				if al, ok := call.Call.Args[1].(*ssa.Slice).X.(*ssa.Alloc); ok && al.Heap {
					return // append(result, oneStatement): a single rebuilt statement, not a splice
				}
			}
			k++
			// guarded by a declares-variable style predicate on the false edge
			guarded := false
			for x := b; x != nil; x = x.Idom() {
				p := x.Idom()
				if p == nil {
					break
				}
				iff := ifOf(p)
				if iff == nil || len(x.Preds) != 1 {
					continue
				}
				cond, truth := iff.Cond, p.Succs[0] == x
				for {
					u, isNot := cond.(*ssa.UnOp)
					if !isNot || u.Op != token.NOT {
						break
					}
					cond, truth = u.X, !truth
				}
				if pc, ok := cond.(*ssa.Call); ok && !truth {
					if sf := staticFn(pc); sf != nil && sf.Signature.Results().Len() == 1 && len(pc.Call.Args) >= 1 && isStmtSlice(pc.Call.Args[len(pc.Call.Args)-1].Type()) {
						guarded = true
					}
				}
			}
			c.ob("C03-R11", fnKey(fn)+"#nested-block-spliced-only-if-it-declares-nothing-"+itoa(k), call.Pos(), guarded, "the optimised statements of a nested block are appended to the enclosing list without a test that the block declares no variable: `if true { $ y = 1 }; $ y = 2` compiles unoptimised and fails with 'cannot redeclare variable' optimised")
		})
		c.Sites["C03-R11#splices"] = k
	}
}

// c03Identities: R12 - rewrites of an operator application whose validity depends on the operand's type.
func c03Identities(c *Ctx) {
	c.rule("C03-R12", "TYPE: the optimiser replaces `x op literal` by one of its operands or by a constant, or uses an operand twice, only when that is valid for every type and every effect of x: GlyphLang operands are dynamically typed (x may be a float, a string, null, or a call with side effects), so `x + 0 -> x`, `x * 0 -> 0`, `false && x -> false` and `x * 2 -> x + x` change results, turn type errors into values, skip or repeat the evaluation of x. Decided structurally: a function taking the two operands of a binary operation returns one of them (or a fresh literal) in place of the operation, or builds a binary node with the same operand on both sides")
	for _, fn := range c.srcFuncs(compilerPkg) {
		if fn.Parent() != nil || fn.Signature.Recv() == nil {
			continue
		}
		if rn := namedOf(fn.Signature.Recv().Type()); rn == nil || rn.Obj().Name() != "Optimizer" {
			continue
		}
		// operand parameters: two parameters of type ast.Expr next to an ast.BinOp parameter
		var operands []ssa.Value
		hasOp := false
		for _, p := range fn.Params[1:] {
			if typeIs(p.Type(), modPath+"/pkg/ast", "Expr") {
				operands = append(operands, p)
			}
			if typeIs(p.Type(), modPath+"/pkg/ast", "BinOp") {
				hasOp = true
			}
		}
		if !hasOp || len(operands) != 2 {
			continue
		}
		isOperand := func(v ssa.Value) bool {
			return derivesFromOnlyPhis(v, func(x ssa.Value) bool { return x == operands[0] || x == operands[1] })
		}
		returnsOperand, returnsLiteral, dup := false, false, false
		var at token.Pos
		eachInstr(fn, func(_ *ssa.BasicBlock, _ int, ins ssa.Instruction) {
			switch x := ins.(type) {
			case *ssa.Return:
				v := retVals(x)[0]
				if isNilConst(stripConv(v)) {
					return
				}
				if isOperand(v) {
					returnsOperand, at = true, x.Pos()
				}
				if mi, ok := v.(*ssa.MakeInterface); ok {
					if al, ok := mi.X.(*ssa.Alloc); ok {
						if nt := namedOf(al.Type().(*types.Pointer).Elem()); nt != nil && nt.Obj().Name() == "LiteralExpr" {
							returnsLiteral = true
							if at == token.NoPos {
								at = x.Pos()
							}
						}
					}
				}
			case *ssa.Alloc:
				nt := namedOf(x.Type().(*types.Pointer).Elem())
				if nt == nil || nt.Obj().Name() != "BinaryOpExpr" {
					return
				}
				var l, r ssa.Value
				for _, rf := range refs(x) {
					if fa, ok := rf.(*ssa.FieldAddr); ok {
						_, f, _ := fieldOf(fa)
						for _, rr := range refs(fa) {
							if st, ok := rr.(*ssa.Store); ok && st.Addr == ssa.Value(fa) {
								if f == "Left" {
									l = st.Val
								}
								if f == "Right" {
									r = st.Val
								}
							}
						}
					}
				}
				if l != nil && r != nil && l == r {
					dup = true
				}
			}
		})
		if returnsOperand || returnsLiteral {
			c.ob("C03-R12", fnKey(fn)+"#operation-replaced-by-operand-or-constant", at, false, "this function answers `x op literal` with x itself or with a constant for a dynamically typed x: (x+0.0)/2 with x=5 gives 2 instead of 2.5, (x*0)==0 with x=2.5 gives true, \"a\"+0 returns \"a\" instead of a type error, false && (1/z==1) with z=0 returns false instead of a division error")
		}
		if dup {
			c.ob("C03-R12", fnKey(fn)+"#operand-used-twice", fn.Pos(), false, "a binary node is built with the same operand expression on both sides (x*2 -> x+x): a call operand is evaluated twice and \"ab\"*2 becomes \"abab\" instead of a type error")
		}
		if !returnsOperand && !returnsLiteral && !dup {
			c.ob("C03-R12", fnKey(fn)+"#no-type-dependent-identity", fn.Pos(), true, "")
		}
	}
}

// derivesFromOnlyPhis: v is a value satisfying pred, possibly through phis / local cells only.
func derivesFromOnlyPhis(v ssa.Value, pred func(ssa.Value) bool) bool {
	seen := map[ssa.Value]bool{}
	var walk func(v ssa.Value, d int) bool
	walk = func(v ssa.Value, d int) bool {
		if v == nil || seen[v] || d > 10 {
			return false
		}
		seen[v] = true
		if pred(v) {
			return true
		}
		switch x := v.(type) {
		case *ssa.Phi:
			for _, e := range x.Edges {
				if walk(e, d+1) {
					return true
				}
			}
		case *ssa.UnOp:
			if al, ok := x.X.(*ssa.Alloc); ok && x.Op == token.MUL {
				for _, r := range refs(al) {
					if st, ok := r.(*ssa.Store); ok && st.Addr == ssa.Value(al) && walk(st.Val, d+1) {
						return true
					}
				}
			}
		case *ssa.ChangeInterface:
			return walk(x.X, d+1)
		}
		return false
	}
	return walk(v, 0)
}

func nodeText(c *Ctx, n ast.Node) string {
	pos, end := c.Fset.Position(n.Pos()), c.Fset.Position(n.End())
	b, err := readFileCached(pos.Filename)
	if err != nil || end.Offset > len(b) || pos.Offset > end.Offset {
		return ""
	}
	return string(b[pos.Offset:end.Offset])
}

// isParam: a function parameter (the killer's own search token is built as "var:" + its name parameter).
func isParam(v ssa.Value) bool { _, ok := v.(*ssa.Parameter); return ok }
