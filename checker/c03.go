package main

import (
	"go/ast"
	"go/token"
	"go/types"
	"sort"
	"strings"

	"golang.org/x/tools/go/ssa"
)

func init() {
	register(&propSpec{
		id: "C03", title: "Optimisation never changes behaviour", run: runC03,
		notCovered:  "semantic preservation of each individual rewrite on all values (algebraic identities such as x*0 -> 0 for floats/strings, CSE key collisions, strength reduction), i.e. equality of results between optimisation levels over all programs x inputs; known residue: loop-invariant code motion still moves a plain assignment out of a loop that may run zero times",
		assumptions: []string{"the optimiser's flow facts are the three maps of compiler.Optimizer (constants, copies, expressions); statement kinds are the concrete types implementing ast.Statement"},
	})
}

// caseClausesOf returns, for the type switches in decl, a map from case type name ("T" / "*T") to clause.
func caseClausesOf(c *Ctx, rel string, decl *ast.FuncDecl) map[string]*ast.CaseClause {
	out := map[string]*ast.CaseClause{}
	if decl == nil {
		return out
	}
	p := c.pkg(rel)
	ast.Inspect(decl, func(n ast.Node) bool {
		ts, ok := n.(*ast.TypeSwitchStmt)
		if !ok {
			return true
		}
		for _, st := range ts.Body.List {
			cc := st.(*ast.CaseClause)
			if cc.List == nil {
				if _, dup := out["default"]; !dup {
					out["default"] = cc
				}
				continue
			}
			for _, e := range cc.List {
				t := p.TypesInfo.TypeOf(e)
				if t == nil {
					continue
				}
				key := ""
				if pt, ok := t.(*types.Pointer); ok {
					if n := namedOf(pt.Elem()); n != nil {
						key = "*" + n.Obj().Name()
					}
				} else if n := namedOf(t); n != nil {
					key = n.Obj().Name()
				}
				if key != "" {
					if _, dup := out[key]; !dup {
						out[key] = cc
					}
				}
			}
		}
		return false // only the outermost type switch
	})
	return out
}

// stmtKindsWithEffects: ast.Statement implementors that assign (Target field) or contain nested blocks.
func stmtKindsWithEffects(c *Ctx) map[string][]string {
	out := map[string][]string{}
	p := c.Pkgs[astPath]
	for _, name := range astImplementors(c, "Statement") {
		tn := p.Types.Scope().Lookup(name).(*types.TypeName)
		st, ok := tn.Type().Underlying().(*types.Struct)
		if !ok {
			continue
		}
		var fields []string
		for i := 0; i < st.NumFields(); i++ {
			f := st.Field(i)
			switch {
			case f.Name() == "Target":
				fields = append(fields, "Target")
			case isStmtSlice(f.Type()):
				fields = append(fields, f.Name())
			case isSwitchCaseSlice(f.Type()):
				fields = append(fields, f.Name())
			}
		}
		if len(fields) > 0 {
			out[name] = fields
		}
	}
	return out
}

func isStmtSlice(t types.Type) bool {
	sl, ok := t.Underlying().(*types.Slice)
	return ok && typeIs(sl.Elem(), astPath, "Statement")
}

func isSwitchCaseSlice(t types.Type) bool {
	sl, ok := t.Underlying().(*types.Slice)
	return ok && typeIs(sl.Elem(), astPath, "SwitchCase")
}

func clauseCalls(c *Ctx, rel string, cc *ast.CaseClause) []string {
	p := c.pkg(rel)
	var out []string
	for _, st := range cc.Body {
		ast.Inspect(st, func(n ast.Node) bool {
			call, ok := n.(*ast.CallExpr)
			if !ok {
				return true
			}
			name := ""
			switch f := call.Fun.(type) {
			case *ast.Ident:
				name = f.Name
			case *ast.SelectorExpr:
				name = f.Sel.Name
			}
			_ = p
			arg := ""
			if len(call.Args) > 0 {
				if se, ok := call.Args[0].(*ast.SelectorExpr); ok {
					arg = se.Sel.Name
				} else if ue, ok := call.Args[0].(*ast.UnaryExpr); ok {
					if id, ok := ue.X.(*ast.Ident); ok {
						arg = "&" + id.Name
					}
				}
			}
			out = append(out, name+"("+arg+")")
			return true
		})
	}
	return out
}

func runC03(c *Ctx) {
	opt := c.decl(compilerPkg, "Optimizer.OptimizeStatements")
	kill := c.decl(compilerPkg, "getModifiedVariablesInStmt")
	if opt == nil || kill == nil {
		c.ob("C03-R1", compilerPkg+"#optimizer-anchors", token.NoPos, false, "Optimizer.OptimizeStatements / getModifiedVariablesInStmt not found: the invalidation mechanism is absent")
		return
	}
	kinds := stmtKindsWithEffects(c)
	if len(kinds) < 6 {
		c.undecided("C03-R1: only %d assigning/nesting statement kinds computed from pkg/ast", len(kinds))
	}
	var kn []string
	for k := range kinds {
		kn = append(kn, k)
	}
	sort.Strings(kn)

	// ---- R1 kill-set collector total
	c.rule("C03-R1", "EXH: getModifiedVariablesInStmt has an arm, in value and in pointer form, for every ast.Statement kind that assigns (a Target field) or contains nested statement blocks ([]Statement / []SwitchCase fields), or its default arm kills everything: a kind without an arm lets stale constants survive a loop / branch that assigns")
	karms := caseClausesOf(c, compilerPkg, kill)
	defaultKills := false
	if d := karms["default"]; d != nil && len(d.Body) > 0 {
		defaultKills = true
	}
	exceptKinds := map[string]string{
		"WebSocketEvent": "an item of WebSocketRoute.Events compiled per event; it never occurs inside a statement list handed to the optimiser",
	}
	for _, k := range kn {
		if why, ok := exceptKinds[k]; ok {
			c.info("C03-R1", compilerPkg+".getModifiedVariablesInStmt#exception:"+k, kill.Pos(), "reasoned exception: "+why)
			continue
		}
		for _, form := range []string{k, "*" + k} {
			_, has := karms[form]
			c.ob("C03-R1", compilerPkg+".getModifiedVariablesInStmt#arm:"+form, kill.Pos(), has || defaultKills, "no arm for "+form+" (fields "+strings.Join(kinds[k], ",")+"): assignments inside such a statement are not seen by the kill set, so a constant recorded before a loop/branch containing it is still propagated afterwards")
		}
	}
	// nested-block arms recurse into every block field
	for _, k := range kn {
		cc := karms["*"+k]
		if cc == nil {
			continue
		}
		src := nodeText(c, cc)
		for _, f := range kinds[k] {
			if f == "Target" {
				continue
			}
			c.ob("C03-R1", compilerPkg+".getModifiedVariablesInStmt#arm:*"+k+"-covers-."+f, cc.Pos(), strings.Contains(src, "."+f), "the arm for *"+k+" never looks into ."+f)
		}
	}

	// ---- R2 joins invalidate
	c.rule("C03-R2", "MPT: in OptimizeStatements every arm for a statement kind with nested blocks invalidates (getModifiedVariables on each block field, then deletion from constants/copies/expressions) — loops before optimising the body, `if` after the branches with the facts restored between then/else; the default arm invalidates whatever the unknown statement may assign")
	oarms := caseClausesOf(c, compilerPkg, opt)
	for _, k := range kn {
		nested := false
		for _, f := range kinds[k] {
			if f != "Target" {
				nested = true
			}
		}
		if !nested {
			continue
		}
		for _, form := range []string{k, "*" + k} {
			cc := oarms[form]
			if cc == nil {
				// falls to default: default must invalidate
				continue
			}
			calls := strings.Join(clauseCalls(c, compilerPkg, cc), " ")
			src := nodeText(c, cc)
			for _, f := range kinds[k] {
				if f == "Target" {
					continue
				}
				covered := strings.Contains(calls, "getModifiedVariables("+f+")") || (f == "Cases" && strings.Contains(src, ".Cases") && strings.Contains(calls, "getModifiedVariables(Body)")) || strings.Contains(calls, "getModifiedVariablesInStmt(")
				c.ob("C03-R2", compilerPkg+".Optimizer.OptimizeStatements#arm:"+form+"-invalidates-."+f, cc.Pos(), covered, "the "+form+" arm does not compute the variables assigned in ."+f+": facts recorded before the statement stay in force after it although that block may change them")
			}
			if k == "IfStatement" {
				// facts must be reset between and after the branches
				okReset := strings.Contains(calls, "restoreFacts(") || strings.Contains(calls, "snapshotFacts(")
				c.ob("C03-R2", compilerPkg+".Optimizer.OptimizeStatements#arm:"+form+"-branches-start-from-same-facts", cc.Pos(), okReset, "both branches of a non-constant if are optimised with one shared fact set: what the then-branch records is applied in the else-branch and after the if")
			}
		}
	}
	if d := oarms["default"]; d != nil {
		calls := strings.Join(clauseCalls(c, compilerPkg, d), " ")
		c.ob("C03-R2", compilerPkg+".Optimizer.OptimizeStatements#default-arm-invalidates", d.Pos(), strings.Contains(calls, "getModifiedVariablesInStmt(") || strings.Contains(calls, "getModifiedVariables("), "statement kinds without an optimizer arm are passed through without invalidating what they assign (the parser produces value-form statements, which all take this arm)")
	} else {
		c.ob("C03-R2", compilerPkg+".Optimizer.OptimizeStatements#default-arm", opt.Pos(), false, "no default arm")
	}
	// dead-code flag only from return statements. The flag is the identifier tested by the
	// `if <flag> { continue }` at the top of the statement loop, whatever it is called.
	deadFlag := "reachedReturn"
	ast.Inspect(opt, func(n ast.Node) bool {
		rs, ok := n.(*ast.RangeStmt)
		if !ok || len(rs.Body.List) == 0 {
			return true
		}
		if is, ok := rs.Body.List[0].(*ast.IfStmt); ok && len(is.Body.List) == 1 {
			if br, ok := is.Body.List[0].(*ast.BranchStmt); ok && br.Tok == token.CONTINUE {
				if id, ok := is.Cond.(*ast.Ident); ok {
					deadFlag = id.Name
				}
			}
		}
		return false
	})
	if fn := c.fn(compilerPkg, "Optimizer.OptimizeStatements"); fn != nil {
		for form, cc := range oarms {
			if strings.Contains(form, "ReturnStatement") {
				continue
			}
			sets := false
			for _, st := range cc.Body {
				ast.Inspect(st, func(n ast.Node) bool {
					if as, ok := n.(*ast.AssignStmt); ok {
						for i, l := range as.Lhs {
							if id, ok := l.(*ast.Ident); ok && id.Name == deadFlag && i < len(as.Rhs) {
								if v, ok := as.Rhs[i].(*ast.Ident); !ok || v.Name != "false" {
									sets = true
								}
							}
						}
					}
					return true
				})
			}
			if sets {
				c.ob("C03-R2", compilerPkg+".Optimizer.OptimizeStatements#arm:"+form+"-sets-reachedReturn", cc.Pos(), false, "statements after a "+form+" are dropped as dead code although it is not an unconditional return (a branch or loop that may not execute / may fall through)")
			}
		}
		c.ob("C03-R2", compilerPkg+".Optimizer.OptimizeStatements#dead-code-only-after-return", opt.Pos(), true, "")
	}

	// ---- R3 LICM
	c.rule("C03-R3", "MPT: loop-invariant hoisting in OptimizeStatements happens only on the true edge of isExprInvariant, and isExprInvariant answers true only after a whitelisting predicate whose type switch has a default arm returning false (unknown / effectful expression kinds are never moved), or after consulting exprHasSideEffects with a use-collector whose default arm marks the expression as depending on everything")
	if ie := c.mustFn("C03-R3", compilerPkg, "isExprInvariant"); ie != nil {
		okWL := false
		eachCall(ie, func(call ssa.CallInstruction) {
			sf := staticFn(call)
			if sf == nil || sf.Pkg == nil || sf.Pkg.Pkg.Path() != compilerPath || !strings.HasSuffix(sf.Signature.Results().String(), "bool)") {
				return
			}
			d := c.decl(compilerPkg, sf.Name())
			if d == nil {
				return
			}
			arms := caseClausesOf(c, compilerPkg, d)
			if def := arms["default"]; def != nil && strings.Contains(nodeText(c, def), "return false") {
				// and its false result makes isExprInvariant return false
				for _, b := range ie.Blocks {
					for si, s := range b.Succs {
						if known, val := boolOnEdge(b, si, call.(ssa.Value)); known && !val {
							q := &pathQuery{fn: ie, target: func(x ssa.Instruction) bool {
								r, ok := x.(*ssa.Return)
								return ok && !isConstBool(retVals(r)[0], false)
							}}
							if h, _ := q.from(s, 0); h == nil {
								okWL = true
							}
						}
					}
				}
			}
		})
		c.ob("C03-R3", compilerPkg+".isExprInvariant#refuses-unknown-and-effectful-expressions", ie.Pos(), okWL, "isExprInvariant accepts expression kinds it cannot see into (calls, awaits, matches, lambdas…): their assignments are hoisted out of the loop and executed once instead of every iteration")
	}
	if fn := c.fn(compilerPkg, "Optimizer.OptimizeStatements"); fn != nil {
		// appends to the invariant list only under isExprInvariant true
		var invs []ssa.Value
		eachCall(fn, func(call ssa.CallInstruction) {
			if callName(call) == compilerPath+".isExprInvariant" {
				invs = append(invs, call.(ssa.Value))
			}
		})
		c.ob("C03-R3", compilerPkg+".Optimizer.OptimizeStatements#hoisting-consults-isExprInvariant", fn.Pos(), len(invs) > 0 || !strings.Contains(nodeText(c, opt), "invariant"), "statements are hoisted without consulting isExprInvariant")
	}

	// ---- R4 folding cannot trap
	c.rule("C03-R4", "PAN: every Go integer / and % in the optimiser's folding code is dominated by a non-zero test of the divisor; no ==/!= fold compares an int literal converted to float with a float literal (the VM's equality is type-strict, so mixed-kind equality must not be folded)")
	nDiv := 0
	for _, fn := range c.srcFuncs(compilerPkg) {
		if !strings.HasSuffix(c.Fset.Position(fn.Pos()).Filename, "/optimizer.go") {
			continue
		}
		k := 0
		eachInstr(fn, func(_ *ssa.BasicBlock, _ int, ins ssa.Instruction) {
			bo, ok := ins.(*ssa.BinOp)
			if !ok {
				return
			}
			if bo.Op == token.QUO || bo.Op == token.REM {
				bt, ok := bo.X.Type().Underlying().(*types.Basic)
				if !ok || bt.Info()&types.IsInteger == 0 {
					return
				}
				if n, ok := constInt(bo.Y); ok && n != 0 {
					return
				}
				k++
				nDiv++
				q := &pathQuery{fn: fn, target: func(x ssa.Instruction) bool { return x == ins }, cutEdge: func(b *ssa.BasicBlock, si int) bool {
					iff := ifOf(b)
					if iff == nil {
						return false
					}
					for _, f := range neFacts(iff.Cond, si == 0) {
						for _, pr := range [][2]ssa.Value{{f.x, f.y}, {f.y, f.x}} {
							if sameVal(pr[0], bo.Y) {
								if n, ok := constInt(pr[1]); ok && n == 0 {
									return true
								}
							}
						}
					}
					return false
				}}
				hit, path := q.fromEntry()
				c.ob("C03-R4", fnKey(fn)+"#int-div-"+itoa(k), bo.Pos(), hit == nil, "constant folding divides by a literal not established non-zero: the compiler panics (or folds a runtime error away)", c.blockPath(path)...)
			}
			_ = bo
		})
		eachInstr(fn, func(_ *ssa.BasicBlock, _ int, ins ssa.Instruction) {
			// literal kinds are never converted into one another by the folder
			if cv, ok := ins.(*ssa.Convert); ok {
				src, ok1 := cv.X.Type().Underlying().(*types.Basic)
				dst, ok2 := cv.Type().Underlying().(*types.Basic)
				if ok1 && ok2 && src.Info()&types.IsInteger != 0 && dst.Info()&types.IsFloat != 0 {
					fromLit := derivesFrom(cv.X, func(v ssa.Value) bool {
						switch y := v.(type) {
						case *ssa.Field:
							return typeIs(y.X.Type(), astPath, "IntLiteral")
						case *ssa.FieldAddr:
							nt, _, ok := fieldOf(y)
							return ok && nt != nil && nt.Obj().Name() == "IntLiteral"
						}
						return false
					})
					if fromLit {
						k++
						c.ob("C03-R4", fnKey(fn)+"#int-literal-promoted-to-float-"+itoa(k), cv.Pos(), false, "the folder converts an int literal to float and folds the mixed-kind operation: for == / != the VM's type-strict equality gives the opposite answer at run time (1 == 1.0 is false on the VM)")
					}
				}
			}
			bo, ok := ins.(*ssa.BinOp)
			if !ok {
				return
			}
			if bo.Op == token.EQL || bo.Op == token.NEQ {
				if bt, ok := bo.X.Type().Underlying().(*types.Basic); ok && bt.Info()&types.IsFloat != 0 {
					mixed := false
					for _, o := range []ssa.Value{bo.X, bo.Y} {
						if cv, ok := o.(*ssa.Convert); ok {
							if st, ok := cv.X.Type().Underlying().(*types.Basic); ok && st.Info()&types.IsInteger != 0 {
								mixed = true
							}
						}
					}
					if mixed {
						k++
						c.ob("C03-R4", fnKey(fn)+"#mixed-kind-equality-fold-"+itoa(k), bo.Pos(), false, "an equality between an int literal (converted to float) and a float literal is folded: at run time the VM's type-strict equality gives the opposite answer")
					}
				}
			}
		})
	}
	if nDiv < 2 {
		c.undecided("C03-R4: %d integer divisions found in optimizer.go, floor 2", nDiv)
	}

	// ---- R5 fresh facts per compilation unit
	c.rule("C03-R5", "MPT: Compiler.Reset re-creates the optimiser's fact maps (assigns a new Optimizer or re-makes all three maps), and every Compile* entry point that calls OptimizeStatements calls Reset first: facts never flow from one compiled unit into the next compiled by the same Compiler")
	if rs := c.mustFn("C03-R5", compilerPkg, "Compiler.Reset"); rs != nil {
		fresh := false
		eachInstr(rs, func(_ *ssa.BasicBlock, _ int, ins ssa.Instruction) {
			if st, ok := ins.(*ssa.Store); ok && isStoreToField(st, "Compiler", "optimizer") {
				if derivesFrom(st.Val, func(v ssa.Value) bool {
					cl, ok := v.(*ssa.Call)
					return ok && callName(cl) == compilerPath+".NewOptimizer"
				}) {
					fresh = true
				}
			}
		})
		if !fresh {
			n := 0
			eachInstr(rs, func(_ *ssa.BasicBlock, _ int, ins ssa.Instruction) {
				if st, ok := ins.(*ssa.Store); ok {
					for _, f := range []string{"constants", "copies", "expressions"} {
						if isStoreToField(st, "Optimizer", f) {
							if _, ok := st.Val.(*ssa.MakeMap); ok {
								n++
							}
						}
					}
				}
			})
			eachCall(rs, func(call ssa.CallInstruction) {
				if sf := staticFn(call); sf != nil && sf.Signature.Recv() != nil && typeIs(sf.Signature.Recv().Type(), compilerPath, "Optimizer") {
					m := 0
					eachInstr(sf, func(_ *ssa.BasicBlock, _ int, ins ssa.Instruction) {
						if st, ok := ins.(*ssa.Store); ok {
							if _, ok := st.Val.(*ssa.MakeMap); ok {
								m++
							}
						}
					})
					if m >= 3 {
						n = 3
					}
				}
			})
			fresh = n >= 3
		}
		c.ob("C03-R5", compilerPkg+".Compiler.Reset#discards-optimizer-facts", rs.Pos(), fresh, "Reset keeps the Optimizer and its fact maps: constants/copies learnt compiling one route are applied to the next route compiled by the same Compiler (setupRoutes compiles all routes with one)")
	}
	for _, fn := range c.srcFuncs(compilerPkg) {
		if fn.Parent() != nil || fn.Signature.Recv() == nil || !strings.HasPrefix(fn.Name(), "Compile") {
			continue
		}
		var optCall ssa.Instruction
		eachInstr(fn, func(_ *ssa.BasicBlock, _ int, ins ssa.Instruction) {
			if isCallTo(ins, compilerPath+".Optimizer.OptimizeStatements") && optCall == nil {
				optCall = ins
			}
		})
		if optCall == nil {
			continue
		}
		q := &pathQuery{fn: fn, target: func(x ssa.Instruction) bool { return x == optCall }, stop: func(x ssa.Instruction) bool {
			return isCallTo(x, compilerPath+".Compiler.Reset")
		}}
		hit, path := q.fromEntry()
		c.ob("C03-R5", fnKey(fn)+"#resets-before-optimizing", optCall.Pos(), hit == nil, "this entry point optimises without resetting the compiler first", c.blockPath(path)...)
	}
	c.floor("C03-R5", 3)

	// ---- R6 level plumbing
	c.rule("C03-R6", "EXH/MPT: OptimizeStatements and OptimizeExpression return their input untouched at OptNone (the level test is the first branch and its true edge returns the parameter); jit tier -> level mapping is total (C15-R4)")
	for _, name := range []string{"Optimizer.OptimizeStatements", "Optimizer.OptimizeExpression"} {
		fn := c.mustFn("C03-R6", compilerPkg, name)
		if fn == nil {
			continue
		}
		ok := false
		if iff := ifOf(fn.Blocks[0]); iff != nil {
			if bo, isBO := iff.Cond.(*ssa.BinOp); isBO && bo.Op == token.EQL && loadedFromField(bo.X, "Optimizer", "level") {
				if k, isK := constInt(bo.Y); isK && k == 0 {
					for _, ins := range fn.Blocks[0].Succs[0].Instrs {
						if r, isR := ins.(*ssa.Return); isR && stripConv(retVals(r)[0]) == ssa.Value(fn.Params[1]) {
							ok = true
						}
					}
				}
			}
		}
		c.ob("C03-R6", compilerPkg+"."+name+"#OptNone-is-identity", fn.Pos(), ok, "at optimisation level 0 the optimiser does not return its input unchanged as its first action")
	}
	for _, name := range []string{"JITCompiler.compileWithTier"} {
		if d := c.decl(jitPkg, name); d != nil {
			for i, cov := range switchConstCoverage(c, jitPkg, d, jitPath, "OptimizationTier") {
				c.ob("C03-R6", jitPkg+"."+name+"#tier-switch-"+itoa(i+1), cov.pos, len(cov.missing) == 0 || cov.hasDefault, "tier switch has no arm for "+strings.Join(cov.missing, ","))
			}
		}
	}
}

func nodeText(c *Ctx, n ast.Node) string {
	pos, end := c.Fset.Position(n.Pos()), c.Fset.Position(n.End())
	b, err := readFileCached(pos.Filename)
	if err != nil || end.Offset > len(b) || pos.Offset > end.Offset {
		return ""
	}
	return string(b[pos.Offset:end.Offset])
}
