package main

import (
	"go/token"
	"go/types"
	"strings"

	"golang.org/x/tools/go/ssa"
)

func init() {
	register(&propSpec{
		id: "C06", title: "Declared authentication fails closed", run: runC06,
		notCovered:  "JWT semantics (the jwt type compares the bearer token with the shared secret), lockout arithmetic and durations, timing side channels, what net/http does with headers",
		assumptions: []string{"the credential-accepted edge of each auth closure is identified by the membership lookup in the configured credential map / the validator's err==nil edge", "BasicAuthMiddlewareWithConfig(validTokens==nil) and AuthMiddleware(validateFunc==nil) are documented accept-all placeholders; the paired rule is that no non-test call site can pass nil"},
	})
}

const glyphCmd = "cmd/glyph"
const astPath = modPath + "/pkg/ast"

// routeLiteralFidelity: every composite literal of ast.Route outside tests must take `field` from a
// parse function or from the same field of another route (copies keep the directive).
func routeLiteralFidelity(c *Ctx, rule, field string, parseFns ...string) {
	n := 0
	for rel := range c.SSA {
		rel = strings.TrimPrefix(rel, modPath+"/")
		if strings.HasPrefix(rel, "examples") || strings.HasPrefix(rel, "tests") {
			continue
		}
		for _, fn := range c.srcFuncs(rel) {
			eachInstr(fn, func(_ *ssa.BasicBlock, _ int, ins ssa.Instruction) {
				al, ok := ins.(*ssa.Alloc)
				if !ok || al.Comment != "complit" || !typeIs(al.Type(), astPath, "Route") {
					return
				}
				n++
				var stored ssa.Value
				for _, r := range refs(al) {
					if fa, ok := r.(*ssa.FieldAddr); ok {
						if _, f, _ := fieldOf(fa); f == field {
							for _, rr := range refs(fa) {
								if st, ok := rr.(*ssa.Store); ok && st.Addr == ssa.Value(fa) {
									stored = st.Val
								}
							}
						}
					}
				}
				ok2 := stored != nil && derivesFrom(stored, func(v ssa.Value) bool {
					if cl, ok := v.(*ssa.Call); ok {
						for _, p := range parseFns {
							if strings.HasSuffix(callName(cl), "."+p) {
								return true
							}
						}
					}
					if u, ok := v.(*ssa.UnOp); ok && u.Op == token.MUL {
						if nt, f, ok := fieldOf(u.X); ok && nt != nil && nt.Obj().Name() == "Route" && f == field {
							return true
						}
					}
					return false
				})
				c.ob(rule, fnKey(fn)+"#ast.Route-literal."+field, al.Pos(), ok2, "an ast.Route is built without carrying over ."+field+" (neither parsed nor copied from the source route): the declaration is silently dropped for routes that pass through this code")
			})
		}
	}
}

// foldsAllMiddlewares checks a dispatcher function: the handler finally invoked folds route.Middlewares over route.Handler.
func foldsAllMiddlewares(c *Ctx, rule string, fn *ssa.Function) {
	isLoadOf := func(v ssa.Value, field string) bool {
		u, ok := v.(*ssa.UnOp)
		if !ok || u.Op != token.MUL {
			return false
		}
		nt, f, ok := fieldOf(u.X)
		return ok && nt != nil && nt.Obj().Name() == "Route" && nt.Obj().Pkg().Path() == serverPath && f == field
	}
	n := 0
	eachInstr(fn, func(_ *ssa.BasicBlock, _ int, ins ssa.Instruction) {
		call, ok := ins.(*ssa.Call)
		if !ok || call.Call.IsInvoke() || !typeIs(call.Call.Value.Type(), serverPath, "RouteHandler") {
			return
		}
		v := call.Call.Value
		if !derivesFrom(v, func(x ssa.Value) bool { return isLoadOf(x, "Handler") }) {
			return
		}
		n++
		viaMw := derivesFrom(v, func(x ssa.Value) bool {
			// a call of an element of route.Middlewares
			cl, ok := x.(*ssa.Call)
			if !ok {
				return false
			}
			if derivesFrom(cl.Call.Value, func(y ssa.Value) bool { return isLoadOf(y, "Middlewares") }) {
				return true
			}
			// a fold helper of the module that is handed route.Middlewares: judged in the helper, on its parameter
			sf := staticFn(cl)
			if sf == nil || sf.Pkg == nil || !strings.HasPrefix(sf.Pkg.Pkg.Path(), modPath) {
				return false
			}
			for i, a := range cl.Call.Args {
				if i >= len(sf.Params) || !isLoadOf(a, "Middlewares") {
					continue
				}
				p := sf.Params[i]
				isP := func(y ssa.Value) bool { return y == ssa.Value(p) }
				folds := false
				eachInstr(sf, func(_ *ssa.BasicBlock, _ int, in ssa.Instruction) {
					ret, ok := in.(*ssa.Return)
					if !ok || len(ret.Results) == 0 {
						return
					}
					if derivesFrom(ret.Results[0], func(y ssa.Value) bool {
						ic, ok := y.(*ssa.Call)
						return ok && derivesFrom(ic.Call.Value, isP)
					}) {
						folds = true
					}
				})
				if folds {
					foldCoverage(c, rule, sf, isP)
					return true
				}
			}
			return false
		})
		c.ob(rule, fnKey(fn)+"#handler-call-"+itoa(n), call.Pos(), viaMw, "the dispatcher invokes route.Handler without folding route.Middlewares over it: declared auth and rate limits are bypassed")
	})
	if n == 0 {
		// the whole fold may live in a helper that is handed the matched route and returns the wrapped handler
		eachInstr(fn, func(_ *ssa.BasicBlock, _ int, ins ssa.Instruction) {
			call, ok := ins.(*ssa.Call)
			if !ok || call.Call.IsInvoke() || !typeIs(call.Call.Value.Type(), serverPath, "RouteHandler") {
				return
			}
			derivesFrom(call.Call.Value, func(x ssa.Value) bool {
				hc, ok := x.(*ssa.Call)
				if !ok {
					return false
				}
				h := staticFn(hc)
				if h == nil || h.Pkg == nil || !strings.HasPrefix(h.Pkg.Pkg.Path(), modPath) || len(h.Blocks) == 0 {
					return false
				}
				takesRoute := false
				for _, a := range hc.Call.Args {
					if typeIs(derefPtr(a.Type()), serverPath, "Route") {
						takesRoute = true
					}
				}
				if !takesRoute {
					return false
				}
				// every handler the helper returns is the route's handler with the route's middlewares applied
				okAll, rets := true, 0
				eachInstr(h, func(_ *ssa.BasicBlock, _ int, y ssa.Instruction) {
					r, ok := y.(*ssa.Return)
					if !ok || len(r.Results) == 0 {
						return
					}
					rets++
					v := r.Results[0]
					fromHandler := derivesFrom(v, func(z ssa.Value) bool { return isLoadOf(z, "Handler") })
					viaMw := derivesFrom(v, func(z ssa.Value) bool {
						cl, ok := z.(*ssa.Call)
						return ok && derivesFrom(cl.Call.Value, func(w ssa.Value) bool { return isLoadOf(w, "Middlewares") })
					})
					if !fromHandler || !viaMw {
						okAll = false
					}
				})
				n++
				c.ob(rule, fnKey(fn)+"#handler-call-"+itoa(n), call.Pos(), okAll && rets > 0, "the dispatcher invokes what "+h.Name()+" returns, and that is not route.Handler with route.Middlewares folded over it: declared auth and rate limits are bypassed")
				foldCoverage(c, rule, h, func(v ssa.Value) bool { return isLoadOf(v, "Middlewares") })
				return true
			})
		})
	}
	if n == 0 {
		c.ob(rule, fnKey(fn)+"#handler-call", fn.Pos(), false, "dispatcher does not invoke a handler derived from route.Handler")
	}
	foldCoverage(c, rule, fn, func(v ssa.Value) bool { return isLoadOf(v, "Middlewares") })
}

// foldCoverage: the index used on the middleware list (isMws) in fn is an induction variable whose range covers 0..len-1.
func foldCoverage(c *Ctx, rule string, fn *ssa.Function, isMws func(ssa.Value) bool) {
	eachInstr(fn, func(_ *ssa.BasicBlock, _ int, ins ssa.Instruction) {
		ia, ok := ins.(*ssa.IndexAddr)
		if !ok || !isMws(ia.X) {
			return
		}
		phi, ok := ia.Index.(*ssa.Phi)
		if !ok {
			// range loops index with phi+1 (rotated)
			if bo, ok2 := ia.Index.(*ssa.BinOp); ok2 {
				if p2, ok3 := bo.X.(*ssa.Phi); ok3 {
					phi = p2
					ok = true
				}
			}
		}
		if !ok {
			c.info(rule, fnKey(fn)+"#middleware-index", ia.Pos(), "route.Middlewares indexed by a non-induction value; coverage of all indexes not decided")
			return
		}
		shape, good := inductionCoversAll(phi, ia.Index, func(v ssa.Value) bool {
			cl, ok := v.(*ssa.Call)
			return ok && callName(cl) == "builtin.len" && isMws(cl.Call.Args[0])
		})
		if shape == "" {
			c.info(rule, fnKey(fn)+"#middleware-loop-shape", ia.Pos(), "unrecognised loop shape over route.Middlewares; coverage of all indexes not decided")
			return
		}
		c.ob(rule, fnKey(fn)+"#middleware-loop-covers-all", ia.Pos(), good, "the fold over route.Middlewares ("+shape+") does not visit every index 0..len-1: one declared middleware (the outermost or the innermost) is skipped")
	})
}

// inductionCoversAll recognises `for i := len-1; i >= 0; i--`, `for i := 0; i < len; i++` and range loops
// and evaluates the exit comparison at the boundary indexes.
func inductionCoversAll(phi *ssa.Phi, index ssa.Value, isLen func(ssa.Value) bool) (string, bool) {
	if len(phi.Edges) != 2 {
		return "", false
	}
	var init, step ssa.Value
	for _, e := range phi.Edges {
		if bo, ok := e.(*ssa.BinOp); ok && bo.X == ssa.Value(phi) {
			step = bo
		} else {
			init = e
		}
	}
	if init == nil || step == nil {
		return "", false
	}
	sb := step.(*ssa.BinOp)
	k, ok := constInt(sb.Y)
	if !ok || k != 1 {
		return "", false
	}
	// find the exit comparison that mentions phi or step
	var cmp *ssa.BinOp
	for _, v := range []ssa.Value{phi, step} {
		for _, r := range refs(v) {
			if bo, ok := r.(*ssa.BinOp); ok {
				switch bo.Op {
				case token.LSS, token.LEQ, token.GTR, token.GEQ, token.NEQ:
					for _, rr := range refs(bo) {
						if _, ok := rr.(*ssa.If); ok {
							cmp = bo
						}
					}
				}
			}
		}
	}
	if cmp == nil {
		return "", false
	}
	eval := func(op token.Token, a, b int64) bool {
		switch op {
		case token.LSS:
			return a < b
		case token.LEQ:
			return a <= b
		case token.GTR:
			return a > b
		case token.GEQ:
			return a >= b
		case token.NEQ:
			return a != b
		}
		return false
	}
	const L = 3 // evaluate with a slice of length 3
	val := func(v ssa.Value, i int64) (int64, bool) {
		if v == ssa.Value(phi) {
			return i, true
		}
		if v == step {
			if sb.Op == token.ADD {
				return i + 1, true
			}
			return i - 1, true
		}
		if n, ok := constInt(v); ok {
			return n, true
		}
		if isLen(v) {
			return L, true
		}
		return 0, false
	}
	var start int64
	if n, ok := constInt(init); ok {
		start = n
	} else if bo, ok := init.(*ssa.BinOp); ok && bo.Op == token.SUB && isLen(bo.X) {
		if n, ok := constInt(bo.Y); ok {
			start = L - n
		} else {
			return "", false
		}
	} else if isLen(init) {
		start = L
	} else {
		return "", false
	}
	// simulate: which indexes are used
	visited := map[int64]bool{}
	i := start
	for iter := 0; iter < 10; iter++ {
		// index value for this iteration
		a, ok1 := val(cmp.X, i)
		b, ok2 := val(cmp.Y, i)
		if !ok1 || !ok2 {
			return "", false
		}
		// is the comparison evaluated before the body uses the index? determine: index==phi → test-then-use with phi value
		// (for), index==step → rotated range loop: test uses step, body uses step.
		cont := eval(cmp.Op, a, b)
		if !cont {
			break
		}
		idx, _ := val(index, i)
		visited[idx] = true
		if sb.Op == token.ADD {
			i++
		} else {
			i--
		}
	}
	shape := "descending for-loop"
	if sb.Op == token.ADD {
		shape = "ascending loop"
	}
	return shape, len(visited) == L && visited[0] && visited[1] && visited[2]
}

func runC06(c *Ctx) {
	c.rule("C06-R8", "PAIR: every Lock/RLock in pkg/server (auth failure trackers) is released on every path to a return; REACQ: no method calls, while it holds its receiver's mutex, a method of the same receiver that acquires that mutex again (sync mutexes are not re-entrant; a second RLock blocks once a writer waits)")
	c.Sites["C06-R8#acquire-sites"] = lockReleaseAudit(c, "C06-R8", []string{serverPkg})
	c.floor("C06-R8", 6)
	// ---- R9 middleware chains are not built in shared storage
	c.rule("C06-R9", "ESC/alias: in pkg/server and cmd/glyph no `append` takes a slice held in a long-lived object (a struct field, a package variable) as its first argument and keeps the result anywhere but in that same place: a route's middleware chain (its auth check) is never written into spare capacity that the next registration overwrites")
	c.Sites["C06-R9#appends-on-shared-slices"] = appendAliasAudit(c, "C06-R9", []string{serverPkg, "cmd/glyph"}, "Here: a route registered later replaces the auth middleware of a route registered earlier.")
	c.floor("C06-R9", 1)
	// ---- R10 the scheme of the Authorization header is compared as a scheme
	c.rule("C06-R10", "CMP: no code of pkg/server, pkg/apikey or cmd/glyph compares text with the literal scheme `Bearer` byte for byte (==, !=, strings.HasPrefix/TrimPrefix/CutPrefix/HasSuffix/Index/Contains with a constant matching (?i)^bearer ?$): auth scheme names are case-insensitive, so a byte-exact test rejects `bearer <valid credential>` and counts it as a failed attempt")
	{
		isScheme := func(v ssa.Value) bool {
			s, ok := constString(v)
			if !ok {
				return false
			}
			t := strings.ToLower(strings.TrimRight(s, " "))
			return t == "bearer" && len(s)-len(t) <= 1
		}
		n := 0
		for _, rel := range []string{serverPkg, "pkg/apikey", "cmd/glyph"} {
			for _, fn := range c.srcFuncs(rel) {
				k := 0
				eachInstr(fn, func(_ *ssa.BasicBlock, _ int, ins ssa.Instruction) {
					bad := false
					switch x := ins.(type) {
					case *ssa.BinOp:
						if (x.Op == token.EQL || x.Op == token.NEQ) && (isScheme(x.X) || isScheme(x.Y)) {
							bad = true
						}
					case *ssa.Call:
						switch callName(x) {
						case "strings.HasPrefix", "strings.TrimPrefix", "strings.CutPrefix", "strings.HasSuffix", "strings.Index", "strings.Contains", "strings.Cut", "strings.Split", "strings.SplitN", "bytes.HasPrefix":
							for _, a := range x.Call.Args[1:] {
								if isScheme(a) {
									bad = true
								}
							}
						case "strings.EqualFold":
							if isScheme(x.Call.Args[0]) || isScheme(x.Call.Args[1]) {
								n++
							}
						}
					}
					if bad {
						k++
						n++
						c.ob("C06-R10", fnKey(fn)+"#scheme-compared-byte-for-byte-"+itoa(k), ins.Pos(), false, "the Authorization scheme is compared with the exact bytes of `Bearer`: `bearer <valid credential>` / `BEARER …` is rejected (and counted towards the client's lock-out) although it carries the configured credential")
					}
				})
			}
		}
		c.ob("C06-R10", "scheme-comparisons-are-case-insensitive", token.NoPos, n > 0, "no comparison with the Bearer scheme found at all: the credential extraction is not where the rule expects it")
		c.Sites["C06-R10#scheme-comparisons"] = n
	}
	// ---- R1 wiring
	c.rule("C06-R1", "TBL/def-use: every server.Route built in cmd/glyph from an *ast.Route sets Middlewares to routeMiddlewares(r) for the same r that produced its Handler, and a server.Route that re-registers another route's Handler copies that route's Middlewares; every ast.Route literal in the module keeps .Auth (parsed by parseAuthConfig or copied from the source route)")
	n := 0
	for _, fn := range c.srcFuncs(glyphCmd) {
		eachInstr(fn, func(_ *ssa.BasicBlock, _ int, ins ssa.Instruction) {
			al, ok := ins.(*ssa.Alloc)
			if !ok || al.Comment != "complit" || !typeIs(al.Type(), serverPath, "Route") {
				return
			}
			stores := map[string]ssa.Value{}
			for _, r := range refs(al) {
				if fa, ok := r.(*ssa.FieldAddr); ok {
					_, f, _ := fieldOf(fa)
					for _, rr := range refs(fa) {
						if st, ok := rr.(*ssa.Store); ok && st.Addr == ssa.Value(fa) {
							stores[f] = st.Val
						}
					}
				}
			}
			h := stores["Handler"]
			if h == nil {
				return
			}
			// the *ast.Route the handler was made from
			src, nSites := handlerSourceRoute(c, "C06-R1", fn, h)
			if src == nil {
				// a route that re-registers another route's handler (an alias: HEAD for GET, a second path) must carry
				// that route's middleware chain as well: the dispatcher applies the chain of the route it matched
				fromRoute := func(v ssa.Value, field string) ssa.Value {
					var base ssa.Value
					derivesFrom(v, func(x ssa.Value) bool {
						if u, ok := x.(*ssa.UnOp); ok && u.Op == token.MUL {
							if fa, ok := u.X.(*ssa.FieldAddr); ok {
								if nt, f, ok := fieldOf(fa); ok && nt != nil && nt.Obj().Name() == "Route" && nt.Obj().Pkg() != nil && nt.Obj().Pkg().Path() == serverPath && f == field {
									base = fa.X
									return true
								}
							}
						}
						return false
					})
					return base
				}
				if hb := fromRoute(h, "Handler"); hb != nil {
					n++
					mw := stores["Middlewares"]
					okAlias := mw != nil && fromRoute(mw, "Middlewares") == hb
					c.ob("C06-R1", fnKey(fn)+"#aliased-route-carries-the-middlewares", al.Pos(), okAlias, "a server.Route is registered with the Handler of another route but without that route's Middlewares: the dispatcher applies the matched route's own chain, so the alias (HEAD for a GET route, a second path) runs the protected body with no credential check and no rate limit")
				}
				return // not built from a declared route (e.g. internal endpoints)
			}
			n += nSites // a literal in a constructor helper stands for each registration path that calls the helper
			mw := stores["Middlewares"]
			ok2 := mw != nil && derivesFrom(mw, func(v ssa.Value) bool {
				cl, ok := v.(*ssa.Call)
				return ok && callName(cl) == modPath+"/cmd/glyph.routeMiddlewares" && cl.Call.Args[0] == src
			})
			c.ob("C06-R1", fnKey(fn)+"#server.Route-literal", al.Pos(), ok2, "a server.Route built from a declared route does not set Middlewares: routeMiddlewares(<that route>): its + auth / + ratelimit directives are inert in this registration path")
		})
	}
	c.Sites["C06-R1#literals"] = n
	if n < 2 {
		c.undecided("C06-R1: found %d server.Route literals built from *ast.Route in cmd/glyph, floor 2", n)
	}
	routeLiteralFidelity(c, "C06-R1", "Auth", "parseAuthConfig")
	// a compiled registration pairs a declaration with the code compiled from that very declaration: the bytecode
	// handed over is looked up under the key of the route handed over
	{
		nr := 0
		for _, fn := range c.srcFuncs(glyphCmd) {
			k := 0
			eachCall(fn, func(cl ssa.CallInstruction) {
				if callName(cl) != modPath+"/cmd/glyph.registerCompiledRoute" || len(cl.Common().Args) < 3 {
					return
				}
				k++
				nr++
				route, code := cl.Common().Args[1], cl.Common().Args[2]
				same := derivesFrom(code, func(v ssa.Value) bool {
					lk, ok := v.(*ssa.Lookup)
					if !ok {
						return false
					}
					return derivesFrom(lk.Index, func(z ssa.Value) bool {
						kc, ok := z.(*ssa.Call)
						return ok && strings.HasSuffix(callName(kc), "/cmd/glyph.compiledRouteKey") && len(kc.Call.Args) == 1 && kc.Call.Args[0] == route
					})
				})
				c.ob("C06-R1", fnKey(fn)+"#compiled-code-of-the-declaration-registered-"+itoa(k), cl.Pos(), same, "the bytecode registered with a declaration is not looked up under that declaration's own key: with one method and path declared twice, the protected first declaration's body is registered with the middlewares of the unprotected second one (or the other way round) - `+ auth(jwt)` body served without a credential in compiled mode only")
			})
		}
		c.Sites["C06-R1#compiled-registrations"] = nr
	}

	// ---- R2 dispatch
	c.rule("C06-R2", "MPT: in every dispatcher (cmd/glyph.createHandler's closure, pkg/server.Handler.ServeHTTP) each call of a handler derived from route.Handler also derives from applying the elements of route.Middlewares, and the fold's index range covers 0..len-1 (loop bounds evaluated at len=3)")
	if ch := c.mustFn("C06-R2", glyphCmd, "createHandler"); ch != nil {
		for _, cl := range innerClosures(ch) {
			if cl.Parent() != ch || len(cl.Params) != 2 {
				continue // nested helpers (e.g. the deferred recover) are not dispatchers
			}
			c.touched(cl)
			foldsAllMiddlewares(c, "C06-R2", cl)
		}
	}
	if sh := c.mustFn("C06-R2", serverPkg, "Handler.ServeHTTP"); sh != nil {
		foldsAllMiddlewares(c, "C06-R2", sh)
	}

	// the dispatchers treat the registered route as read-only: composing the chain by rewriting route.Handler /
	// route.Middlewares on the first request opens a window in which a concurrent request sees neither
	{
		var disp []*ssa.Function
		if ch := c.fn(glyphCmd, "createHandler"); ch != nil {
			for _, cl := range innerClosures(ch) {
				disp = append(disp, cl)
			}
		}
		if sh := c.fn(serverPkg, "Handler.ServeHTTP"); sh != nil {
			disp = append(disp, withAnon(sh)...)
		}
		nW := 0
		for _, fn := range disp {
			k := 0
			eachInstr(fn, func(_ *ssa.BasicBlock, _ int, ins ssa.Instruction) {
				st, ok := ins.(*ssa.Store)
				if !ok {
					return
				}
				nt, f, ok := fieldOf(st.Addr)
				if !ok || nt == nil || nt.Obj().Pkg() == nil || nt.Obj().Pkg().Path() != serverPath || nt.Obj().Name() != "Route" || isFreshAlloc(st.Addr) {
					return
				}
				k++
				nW++
				c.ob("C06-R2", fnKey(fn)+"#dispatcher-does-not-modify-route:"+f+"-"+itoa(k), st.Pos(), false, "the dispatcher assigns Route."+f+" of the registered route while serving a request (no synchronisation; other requests for the same route run concurrently): between clearing the middleware list and publishing the wrapped handler a request finds no middlewares and the bare handler, so a `+ auth(...)` route runs its body without any credential")
			})
		}
		c.Sites["C06-R2#dispatcher-writes-to-Route"] = nW
		c.ob("C06-R2", glyphCmd+"#dispatchers-leave-registered-routes-unmodified", token.NoPos, len(disp) > 0, "no dispatcher found")
	}

	// ---- R3 fail closed at construction
	c.rule("C06-R3", "GRD: in cmd/glyph.authMiddleware `return nil` only under auth==nil; server.BasicAuthMiddleware(map{secret}) is reachable only where secret != \"\" is established; apiKeyMiddleware(keys) only where len(keys) != 0 is established; every other exit returns denyAllMiddleware(…); routeMiddlewares appends the auth middleware whenever it is non-nil")
	if am := c.mustFn("C06-R3", glyphCmd, "authMiddleware"); am != nil {
		checkNilReturnOnlyUnder(c, "C06-R3", am, func(b *ssa.BasicBlock, si int) bool { return nilOnEdge(b, si, am.Params[0]) })
		eachInstr(am, func(_ *ssa.BasicBlock, _ int, ins ssa.Instruction) {
			call, ok := ins.(*ssa.Call)
			if !ok {
				return
			}
			switch callName(call) {
			case serverPath + ".BasicAuthMiddleware", serverPath + ".BasicAuthMiddlewareWithConfig":
				// secret = key stored into the map argument
				var secrets []ssa.Value
				if mm, ok := call.Call.Args[0].(*ssa.MakeMap); ok {
					for _, r := range refs(mm) {
						if mu, ok := r.(*ssa.MapUpdate); ok {
							secrets = append(secrets, mu.Key)
						}
					}
				}
				if len(secrets) == 0 {
					c.ob("C06-R3", "cmd/glyph.authMiddleware#bearer-secret-map", call.Pos(), false, "the token set passed to BasicAuthMiddleware is not a map literal built here: cannot establish it is non-empty and non-blank")
					return
				}
				q := &pathQuery{fn: am, cutEdge: func(b *ssa.BasicBlock, si int) bool {
					iff := ifOf(b)
					if iff == nil {
						return false
					}
					for _, f := range neFacts(iff.Cond, si == 0) {
						for _, s := range secrets {
							for _, pr := range [][2]ssa.Value{{f.x, f.y}, {f.y, f.x}} {
								if pr[0] == s {
									if str, ok := constString(pr[1]); ok && str == "" {
										return true
									}
								}
							}
						}
					}
					return false
				}, target: func(x ssa.Instruction) bool { return x == ssa.Instruction(call) }}
				hit, path := q.fromEntry()
				c.ob("C06-R3", "cmd/glyph.authMiddleware#bearer-needs-secret", call.Pos(), hit == nil, "bearer auth is enabled on a path where the configured secret may be empty: an empty/absent secret would be accepted as a credential (fails open)", c.blockPath(path)...)
			case modPath + "/cmd/glyph.apiKeyMiddleware":
				keys := call.Call.Args[0]
				q := &pathQuery{fn: am, cutEdge: func(b *ssa.BasicBlock, si int) bool {
					iff := ifOf(b)
					if iff == nil {
						return false
					}
					isLenKeys := func(v ssa.Value) bool {
						cl, ok := v.(*ssa.Call)
						return ok && callName(cl) == "builtin.len" && cl.Call.Args[0] == keys
					}
					for _, f := range neFacts(iff.Cond, si == 0) {
						for _, pr := range [][2]ssa.Value{{f.x, f.y}, {f.y, f.x}} {
							if n, ok := constInt(pr[1]); ok && n == 0 && isLenKeys(pr[0]) {
								return true
							}
						}
					}
					// len(keys) > 0 true edge
					if bo, ok := iff.Cond.(*ssa.BinOp); ok && bo.Op == token.GTR && si == 0 && isLenKeys(bo.X) {
						if n, ok := constInt(bo.Y); ok && n == 0 {
							return true
						}
					}
					return false
				}, target: func(x ssa.Instruction) bool { return x == ssa.Instruction(call) }}
				hit, path := q.fromEntry()
				c.ob("C06-R3", "cmd/glyph.authMiddleware#apikey-needs-keys", call.Pos(), hit == nil, "API-key auth is enabled on a path where the configured key set may be empty", c.blockPath(path)...)
			}
		})
		// every return value is nil / one of the three constructors
		rn := 0
		eachInstr(am, func(_ *ssa.BasicBlock, _ int, ins ssa.Instruction) {
			ret, ok := ins.(*ssa.Return)
			if !ok {
				return
			}
			rn++
			v := retVals(ret)[0]
			okv := isNilConst(stripConv(v)) || func() bool {
				cl, ok := v.(*ssa.Call)
				if !ok {
					return false
				}
				switch callName(cl) {
				case serverPath + ".BasicAuthMiddleware", serverPath + ".BasicAuthMiddlewareWithConfig", modPath + "/cmd/glyph.apiKeyMiddleware", modPath + "/cmd/glyph.denyAllMiddleware":
					return true
				}
				return false
			}()
			c.ob("C06-R3", "cmd/glyph.authMiddleware#return-"+itoa(rn), ret.Pos(), okv, "authMiddleware returns something other than nil (no auth declared), a credential-checking middleware or denyAllMiddleware")
		})
	}
	checkAppendsWhenNonNil(c, "C06-R3", "authMiddleware")

	// ---- R4 the check guards next
	c.rule("C06-R4", "MPT/GRD: in each credential-checking closure the next handler is unreachable from entry once the credential-accepted edges are deleted (membership lookup in the valid-credential map is true / Validate err==nil and valid==true); denyAllMiddleware never calls next; accept-all placeholders (nil credential set) are listed exceptions whose call sites in non-test code must pass a non-nil set; the looked-up credential derives from this request's headers")
	guardClosure := func(rel, fname string, nextPkg, nextType string, accepted func(cl *ssa.Function) func(b *ssa.BasicBlock, si int) bool, credOK func(cl *ssa.Function) (bool, token.Pos)) {
		f := c.mustFn("C06-R4", rel, fname)
		if f == nil {
			return
		}
		found := false
		for _, cl := range innerClosures(f) {
			has := false
			eachInstr(cl, func(_ *ssa.BasicBlock, _ int, ins ssa.Instruction) {
				if isHandlerValueCall(ins, nextPkg, nextType) || isNextServeHTTP(ins) {
					has = true
				}
			})
			if !has {
				continue
			}
			found = true
			c.touched(cl)
			q := &pathQuery{fn: cl, cutEdge: accepted(cl), target: func(ins ssa.Instruction) bool {
				return isHandlerValueCall(ins, nextPkg, nextType) || isNextServeHTTP(ins)
			}}
			hit, path := q.fromEntry()
			p := cl.Pos()
			if hit != nil {
				p = hit.Pos()
			}
			c.ob("C06-R4", fnKey(f)+"#next-only-after-accept", p, hit == nil, "the protected handler is reachable without taking a credential-accepted edge: the route body runs for a request without a configured credential", c.blockPath(path)...)
			if credOK != nil {
				okc, pp := credOK(cl)
				c.ob("C06-R4", fnKey(f)+"#credential-from-request", pp, okc, "the value looked up in the credential set does not derive from this request's headers")
			}
		}
		if !found {
			c.ob("C06-R4", fnKey(f)+"#anchor-missing", f.Pos(), false, "no closure of "+fname+" calls the next handler")
		}
	}
	// lookups in a captured map[string]bool: accepted = lookup value true
	mapAccepted := func(allowNilMap bool) func(cl *ssa.Function) func(b *ssa.BasicBlock, si int) bool {
		return func(cl *ssa.Function) func(b *ssa.BasicBlock, si int) bool {
			var lookups []ssa.Value
			var maps []ssa.Value
			eachInstr(cl, func(_ *ssa.BasicBlock, _ int, ins ssa.Instruction) {
				if lk, ok := ins.(*ssa.Lookup); ok && !lk.CommaOk {
					if m, ok := lk.X.Type().Underlying().(*types.Map); ok && m.Elem().String() == "bool" {
						if derivesFrom(lk.X, func(v ssa.Value) bool { _, ok := v.(*ssa.FreeVar); return ok }) {
							lookups = append(lookups, lk)
							maps = append(maps, lk.X)
						}
					}
				}
			})
			return func(b *ssa.BasicBlock, si int) bool {
				for _, lk := range lookups {
					if known, val := boolOnEdge(b, si, lk); known && val {
						return true
					}
				}
				if allowNilMap {
					for _, m := range maps {
						if nilOnEdge(b, si, m) {
							return true
						}
					}
				}
				return false
			}
		}
	}
	credFromHeader := func(cl *ssa.Function) (bool, token.Pos) {
		ok := true
		p := cl.Pos()
		eachInstr(cl, func(_ *ssa.BasicBlock, _ int, ins ssa.Instruction) {
			if lk, isL := ins.(*ssa.Lookup); isL && !lk.CommaOk {
				if m, isM := lk.X.Type().Underlying().(*types.Map); isM && m.Elem().String() == "bool" {
					if _, isFV := stripLoad(lk.X).(*ssa.FreeVar); isFV {
						if !derivesFrom(lk.Index, func(v ssa.Value) bool {
							cc, ok := v.(*ssa.Call)
							return ok && callName(cc) == "net/http.Header.Get" && derivesFrom(cc.Call.Args[0], func(x ssa.Value) bool { return len(cl.Params) > 0 && x == ssa.Value(cl.Params[0]) })
						}) {
							ok = false
							p = lk.Pos()
						}
					}
				}
			}
		})
		return ok, p
	}
	guardClosure(glyphCmd, "apiKeyMiddleware", serverPath, "RouteHandler", mapAccepted(false), credFromHeader)
	guardClosure(serverPkg, "BasicAuthMiddlewareWithConfig", serverPath, "RouteHandler", mapAccepted(true), credFromHeader)
	c.info("C06-R4", serverPkg+".BasicAuthMiddlewareWithConfig#exception-nil-tokens", token.NoPos, "reasoned exception: validTokens==nil accepts every non-empty token (documented library placeholder); paired obligation below forbids nil at call sites")
	guardClosure(serverPkg, "AuthMiddleware", serverPath, "RouteHandler", func(cl *ssa.Function) func(b *ssa.BasicBlock, si int) bool {
		// accepted: valid==true edge of the validator result; exception validateFunc==nil
		var valids []ssa.Value
		var vfs []ssa.Value
		eachInstr(cl, func(_ *ssa.BasicBlock, _ int, ins ssa.Instruction) {
			if call, ok := ins.(*ssa.Call); ok && !call.Call.IsInvoke() && call.Call.StaticCallee() == nil {
				if tup, ok := call.Type().(*types.Tuple); ok && tup.Len() == 2 && tup.At(0).Type().String() == "bool" {
					valids = append(valids, extractOf(call, 0)...)
					vfs = append(vfs, call.Call.Value)
				}
			}
		})
		return func(b *ssa.BasicBlock, si int) bool {
			for _, v := range valids {
				if known, val := boolOnEdge(b, si, v); known && val {
					return true
				}
			}
			for _, vf := range vfs {
				if nilOnEdge(b, si, vf) {
					return true
				}
			}
			return false
		}
	}, nil)
	c.info("C06-R4", serverPkg+".AuthMiddleware#exception-nil-validator", token.NoPos, "reasoned exception: validateFunc==nil accepts any non-empty Authorization header (documented placeholder)")
	guardClosure("pkg/apikey", "Middleware", "net/http", "Handler", func(cl *ssa.Function) func(b *ssa.BasicBlock, si int) bool {
		var errs []ssa.Value
		eachInstr(cl, func(_ *ssa.BasicBlock, _ int, ins ssa.Instruction) {
			if call, ok := ins.(*ssa.Call); ok && strings.HasSuffix(callName(call), "pkg/apikey.Validator.Validate") {
				errs = append(errs, extractOf(call, 1)...)
			}
		})
		return func(b *ssa.BasicBlock, si int) bool {
			for _, e := range errs {
				if nilOnEdge(b, si, e) {
					return true
				}
			}
			return false
		}
	}, nil)
	// denyAll: no next call at all
	if da := c.mustFn("C06-R4", glyphCmd, "denyAllMiddleware"); da != nil {
		calls := false
		for _, cl := range innerClosures(da) {
			eachInstr(cl, func(_ *ssa.BasicBlock, _ int, ins ssa.Instruction) {
				if isHandlerValueCall(ins, serverPath, "RouteHandler") {
					calls = true
				}
			})
		}
		c.ob("C06-R4", "cmd/glyph.denyAllMiddleware#never-calls-next", da.Pos(), !calls, "denyAllMiddleware invokes the protected handler")
		// and it answers 401/403
		ok401 := false
		for _, cl := range innerClosures(da) {
			eachCall(cl, func(call ssa.CallInstruction) {
				if callName(call) == serverPath+".SendError" {
					if code, ok := constInt(call.Common().Args[1]); ok && (code == 401 || code == 403) {
						ok401 = true
					}
				}
			})
		}
		c.ob("C06-R4", "cmd/glyph.denyAllMiddleware#rejects-401", da.Pos(), ok401, "denyAllMiddleware does not answer 401/403")
	}
	// paired: call sites of the accept-all-capable constructors outside tests pass a non-nil set
	for rel := range c.SSA {
		rel = strings.TrimPrefix(rel, modPath+"/")
		if rel == serverPkg {
			continue
		}
		for _, fn := range c.srcFuncs(rel) {
			eachCall(fn, func(call ssa.CallInstruction) {
				switch callName(call) {
				case serverPath + ".BasicAuthMiddleware", serverPath + ".BasicAuthMiddlewareWithConfig", serverPath + ".AuthMiddleware":
					a := call.Common().Args[0]
					nonNil := false
					switch stripConv(a).(type) {
					case *ssa.MakeMap, *ssa.MakeClosure, *ssa.Function:
						nonNil = true
					}
					c.ob("C06-R4", fnKey(fn)+"#non-nil-credential-set", call.Pos(), nonNil, "an auth middleware constructor that treats nil as accept-all is called with a credential set that is not a literal built at the call site")
				}
			})
		}
	}

	// ---- R5 lockout precedes credential check
	c.rule("C06-R5", "MPT: in BasicAuthMiddlewareWithConfig's closure the lock-out test (time.Before on the tracker's lockedUntil) dominates the read of the Authorization header; from its locked-out edge neither the header read nor next is reachable and every return passes SendError(ctx, 429, …); every credential-rejected return is preceded by recordAuthFailure")
	if f := c.fn(serverPkg, "BasicAuthMiddlewareWithConfig"); f != nil {
		for _, cl := range innerClosures(f) {
			var lockIf *ssa.If
			var lockIdx int
			var hdr ssa.Instruction
			eachInstr(cl, func(b *ssa.BasicBlock, _ int, ins ssa.Instruction) {
				if call, ok := ins.(*ssa.Call); ok {
					if callName(call) == "time.Time.Before" && derivesFrom(call.Call.Args[1], func(v ssa.Value) bool {
						_, fld, ok := fieldOf(v)
						return ok && fld == "lockedUntil"
					}) {
						for _, r := range refs(call) {
							if i, ok := r.(*ssa.If); ok {
								lockIf, lockIdx = i, 0
							}
						}
					}
					if callName(call) == "net/http.Header.Get" && hdr == nil {
						if s, ok := constString(call.Call.Args[1]); ok && s == "Authorization" {
							hdr = call
						}
					}
				}
			})
			if hdr == nil {
				continue
			}
			if lockIf == nil {
				c.ob("C06-R5", serverPkg+".BasicAuthMiddlewareWithConfig#lockout-test", cl.Pos(), false, "no lock-out test (now.Before(tracker.lockedUntil)) found before the credential check")
				continue
			}
			c.ob("C06-R5", serverPkg+".BasicAuthMiddlewareWithConfig#lockout-dominates-credential-read", hdr.Pos(), lockIf.Block().Dominates(hdr.Block()), "the Authorization header is examined on a path that did not pass the lock-out test")
			lb := lockIf.Block().Succs[lockIdx]
			q := &pathQuery{fn: cl, target: func(ins ssa.Instruction) bool {
				return ins == hdr || isHandlerValueCall(ins, serverPath, "RouteHandler")
			}}
			hit, path := q.from(lb, 0)
			c.ob("C06-R5", serverPkg+".BasicAuthMiddlewareWithConfig#locked-out-edge-rejects", lockIf.Cond.Pos(), hit == nil, "a locked-out client still reaches the credential check or the handler", c.blockPath(path)...)
			q2 := &pathQuery{fn: cl, target: isReturn, stop: func(ins ssa.Instruction) bool {
				call, ok := ins.(ssa.CallInstruction)
				if !ok || callName(call) != serverPath+".SendError" {
					return false
				}
				code, ok := constInt(call.Common().Args[1])
				return ok && code == 429
			}}
			hit2, path2 := q2.from(lb, 0)
			c.ob("C06-R5", serverPkg+".BasicAuthMiddlewareWithConfig#locked-out-edge-429", lockIf.Cond.Pos(), hit2 == nil, "the locked-out edge can return without answering 429", c.blockPath(path2)...)
			// every 401 is preceded by recordAuthFailure
			n401 := 0
			eachInstr(cl, func(_ *ssa.BasicBlock, _ int, ins ssa.Instruction) {
				call, ok := ins.(*ssa.Call)
				if !ok || callName(call) != serverPath+".SendError" {
					return
				}
				if code, ok := constInt(call.Call.Args[1]); !ok || code != 401 {
					return
				}
				n401++
				q := &pathQuery{fn: cl, stop: func(x ssa.Instruction) bool { return isCallTo(x, serverPath+".recordAuthFailure") }, target: func(x ssa.Instruction) bool { return x == ssa.Instruction(call) }}
				h, pth := q.fromEntry()
				c.ob("C06-R5", serverPkg+".BasicAuthMiddlewareWithConfig#401-records-failure-"+itoa(n401), call.Pos(), h == nil, "a rejected credential is not counted towards the lock-out (brute force is unthrottled on this path)", c.blockPath(pth)...)
			})
		}
	}
	c.floor("C06-R5", 3)

	// ---- R6 lockset
	c.rule("C06-R6", "LCK: the failure-tracker table and authFailureTracker.{failures,lastFailure,lockedUntil} are accessed only with the middleware's mutex held (helpers receiving the mutex as a parameter are resolved through their callers); reads consumed only by log output are listed, not reported")
	if f := c.fn(serverPkg, "BasicAuthMiddlewareWithConfig"); f != nil {
		muName := localVarNamed(f, isSyncMutex)
		tbl := localVarNamed(f, mapWithElem(serverPath, "authFailureTracker"))
		if muName == "" || tbl == "" {
			c.ob("C06-R6", serverPkg+".BasicAuthMiddlewareWithConfig#anchor-missing", f.Pos(), false, "no unique local mutex / failure-tracker table found")
		} else {
			cls := "local:" + serverPkg + ".BasicAuthMiddlewareWithConfig." + muName
			e := newLck(c, &lckConfig{rule: "C06-R6", pkgs: []string{serverPkg}, guards: []guard{
				{typ: "local:" + serverPkg + ".BasicAuthMiddlewareWithConfig", field: tbl, class: cls},
				{typ: serverPkg + ".authFailureTracker", field: "failures", class: cls},
				{typ: serverPkg + ".authFailureTracker", field: "lastFailure", class: cls},
				{typ: serverPkg + ".authFailureTracker", field: "lockedUntil", class: cls},
			}})
			e.run()
			c.floor("C06-R6", 8)
		}
	}

	// the failure table is keyed by the client, on every path: a shared or constant key makes one client's failures
	// lock out another one that holds a valid credential
	if f := c.fn(serverPkg, "BasicAuthMiddlewareWithConfig"); f != nil {
		tbl := localVarNamed(f, mapWithElem(serverPath, "authFailureTracker"))
		n := 0
		for _, cl := range withAnon(f) {
			isIP := func(v ssa.Value) bool {
				call, ok := v.(*ssa.Call)
				return ok && callName(call) == serverPath+".getClientIP"
			}
			eachInstr(cl, func(_ *ssa.BasicBlock, _ int, ins ssa.Instruction) {
				var m, k ssa.Value
				switch x := ins.(type) {
				case *ssa.Lookup:
					m, k = x.X, x.Index
				case *ssa.MapUpdate:
					m, k = x.Map, x.Key
				default:
					return
				}
				u, ok := m.(*ssa.UnOp)
				if !ok {
					return
				}
				fv, ok := u.X.(*ssa.FreeVar)
				if !ok || fv.Name() != tbl {
					return
				}
				// only accesses in closures that see the request (they call getClientIP)
				sees := false
				eachInstr(cl, func(_ *ssa.BasicBlock, _ int, x ssa.Instruction) {
					if v, ok := x.(ssa.Value); ok && isIP(v) {
						sees = true
					}
				})
				if !sees {
					return
				}
				n++
				c.ob("C06-R6", fnKey(cl)+"#failure-table-keyed-by-the-client-"+itoa(n), ins.Pos(), derivesFrom(k, isIP) && onlyFrom(k, isIP), "the failure-tracker table is accessed with a key that is not, on every path, the identity of this request's client (a constant or shared key can take its place): failures of other clients count against - and lock out - a client that presents a valid credential")
			})
		}
		c.Sites["C06-R6#failure-table-accesses-in-request-closures"] = n
	}

	// ---- R7 identity
	c.rule("C06-R7", "TNT/GRD: getClientIP returns header-derived identities only under trustProxy==true (lock-out identity cannot be forged or evaded by default); DefaultAuthRateLimitConfig does not set TrustProxy")
	checkClientIP(c, "C06-R7")
	checkNoTrustProxyLiteral(c, "C06-R7", serverPkg, "AuthRateLimitConfig")
}

func stripLoad(v ssa.Value) ssa.Value {
	if u, ok := v.(*ssa.UnOp); ok && u.Op == token.MUL {
		return u.X
	}
	return v
}

// isNextServeHTTP: next.ServeHTTP(w, r) on a captured http.Handler.
func isNextServeHTTP(ins ssa.Instruction) bool {
	call, ok := ins.(ssa.CallInstruction)
	if !ok || !call.Common().IsInvoke() || call.Common().Method.Name() != "ServeHTTP" {
		return false
	}
	v := stripLoad(call.Common().Value)
	switch v.(type) {
	case *ssa.FreeVar, *ssa.Parameter:
		return true
	}
	return false
}
