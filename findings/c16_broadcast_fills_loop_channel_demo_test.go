package websocket

import (
	"testing"
	"time"
)

// Demo: handlers run on the hub's event-loop goroutine, and the broadcast APIs
// they are given (MessageContext.Broadcast/BroadcastToRoom, VMHandler.Broadcast/
// BroadcastToRoom == ws.broadcast / ws.broadcast_to_room) enqueue on
// hub.broadcast / hub.broadcastToRoom, 256-slot channels that only that same
// goroutine drains. One handler invocation that broadcasts more than 256 times
// (a `for` loop over a list in a GlyphLang `on message` block) blocks the hub
// loop on itself forever.
func TestDemoManyBroadcastsFromOneHandlerDeadlockHub(t *testing.T) {
	for _, tc := range []struct {
		name string
		send func(h *VMHandler, i int) error
	}{
		{"ws.broadcast", func(h *VMHandler, i int) error { return h.Broadcast(i) }},
		{"ws.broadcast_to_room", func(h *VMHandler, i int) error { return h.BroadcastToRoom("lobby", i) }},
	} {
		t.Run(tc.name, func(t *testing.T) {
			hub := NewHub()
			go hub.Run()
			<-hub.started

			conn := NewConnection("c1", nil, hub)
			hub.register <- conn
			conn.JoinRoom("lobby")

			done := make(chan struct{})
			hub.OnEvent("fanout", func(ctx *MessageContext) error {
				defer close(done)
				h := NewVMHandler(ctx.Conn, hub) // as executeWebSocketBytecode does
				for i := 0; i < 300; i++ {
					if err := tc.send(h, i); err != nil {
						return err
					}
				}
				return nil
			})

			hub.handleMessage <- &MessageContext{Conn: conn, Message: &Message{Type: MessageTypeJSON, Event: "fanout"}}

			select {
			case <-done:
			case <-time.After(3 * time.Second):
				t.Fatalf("handler issuing 300 x %s never returned: hub event loop is blocked on its own %d-slot queue", tc.name, cap(hub.broadcast))
			}
		})
	}
}
