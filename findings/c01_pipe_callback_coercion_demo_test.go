package main

import (
	"net/http"
	"net/http/httptest"
	"strings"
	"testing"
)

func TestPipeAndCallbackCoerceLikeADirectCall(t *testing.T) {
	src := "! half(n: int): int {\n  > n / 2\n}\n@ POST /direct {\n  > {r: half(input.n)}\n}\n@ POST /piped {\n  > {r: input.n |> half}\n}\n@ POST /mapped {\n  > {r: map([input.n], half)}\n}\n"
	module, err := parseSource(src)
	if err != nil {
		t.Fatal(err)
	}
	_, _, _, router, err := setupRoutes(module, "/tmp/x.glyph", true)
	if err != nil {
		t.Fatal(err)
	}
	mux := http.NewServeMux()
	mux.HandleFunc("/", createHandler(router))
	got := map[string]string{}
	for _, p := range []string{"/direct", "/piped", "/mapped"} {
		rec := httptest.NewRecorder()
		req := httptest.NewRequest("POST", p, strings.NewReader(`{"n": 7}`))
		req.Header.Set("Content-Type", "application/json")
		mux.ServeHTTP(rec, req)
		got[p] = strings.TrimSpace(rec.Body.String())
		t.Logf("%s -> %d %s", p, rec.Code, got[p])
	}
	if got["/piped"] != got["/direct"] {
		t.Errorf("input.n |> half answers %s, half(input.n) answers %s", got["/piped"], got["/direct"])
	}
	if got["/mapped"] != `{"r":[3]}` {
		t.Errorf("map([input.n], half) answers %s, want {\"r\":[3]}", got["/mapped"])
	}
}
