package compiler

// Demonstration for C03: the CSE key of a float literal was printed with %f (6 decimals), so two
// different small constants shared one key and the second computation was replaced by the first.
// Copy into /repo/pkg/compiler; go test -run TestZZCseFloatKey ./pkg/compiler/

import (
	"fmt"
	"testing"

	"github.com/glyphlang/glyph/pkg/ast"
	"github.com/glyphlang/glyph/pkg/vm"
)

func TestZZCseFloatKey(t *testing.T) {
	v := func(n string) ast.Expr { return &ast.VariableExpr{Name: n} }
	fl := func(x float64) ast.Expr { return &ast.LiteralExpr{Value: ast.FloatLiteral{Value: x}} }
	mul := func(a, b ast.Expr) ast.Expr { return &ast.BinaryOpExpr{Op: ast.Mul, Left: a, Right: b} }
	prog := func() []ast.Statement {
		return []ast.Statement{
			&ast.AssignStatement{Target: "p", Value: mul(v("n"), fl(0.0000001))},
			&ast.AssignStatement{Target: "q", Value: mul(v("n"), fl(0.0000004))},
			&ast.ReturnStatement{Value: &ast.BinaryOpExpr{Op: ast.Div, Left: v("q"), Right: v("p")}},
		}
	}
	run := func(level OptimizationLevel) string {
		bc, err := NewCompilerWithOptLevel(level).CompileRoute(&ast.Route{Path: "/t/:n", Body: prog()})
		if err != nil {
			return "compile error: " + err.Error()
		}
		m := vm.NewVM()
		m.SetLocal("n", vm.IntValue{Val: 1000})
		res, err := m.Execute(bc)
		return fmt.Sprintf("%v %v", res, err)
	}
	want := run(OptNone)
	for _, level := range []OptimizationLevel{OptBasic, OptAggressive} {
		if got := run(level); got != want {
			t.Errorf("level %d: got %s, unoptimised gives %s", level, got, want)
		}
	}
}
