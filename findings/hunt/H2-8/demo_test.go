package server_test

// Demo for defect 8 (C04): TimeoutMiddleware runs the rest of the chain in a
// new goroutine without a recover(). A panic in the route handler (any fault
// of a user program that surfaces as a Go panic) therefore is not seen by the
// RecoveryMiddleware that wraps it - recover() only works on the panicking
// goroutine - and terminates the whole server process.
//
// Place in pkg/server/ and run:
//   go test ./pkg/server/ -run TestDemo8 -count=1 -v
//
// The request is served in a child process (the same test binary).

import (
	"io"
	"net/http"
	"net/http/httptest"
	"os"
	"os/exec"
	"strings"
	"testing"
	"time"

	"github.com/glyphlang/glyph/pkg/server"
)

// The stack documented in pkg/metrics/integration_example.go:
// Recovery outermost, Timeout innermost.
func demo8Server() *httptest.Server {
	s := server.NewServer(
		server.WithMiddleware(server.RecoveryMiddleware()),
		server.WithMiddleware(server.LoggingMiddleware()),
		server.WithMiddleware(server.TimeoutMiddleware(5*time.Second)),
	)
	s.RegisterRoute(&server.Route{Method: server.GET, Path: "/boom", Handler: func(ctx *server.Context) error {
		var m map[string]interface{}
		m["seen"] = true // e.g. "assignment to entry in nil map", see defect 10
		return nil
	}})
	s.RegisterRoute(&server.Route{Method: server.GET, Path: "/ok", Handler: func(ctx *server.Context) error {
		return server.SendJSON(ctx, 200, map[string]interface{}{"ok": true})
	}})
	return httptest.NewServer(s.GetHandler())
}

func TestDemo8Child(t *testing.T) {
	if os.Getenv("DEMO8_CHILD") == "" {
		t.Skip("helper for TestDemo8_PanicBehindTimeoutMiddlewareKillsTheServer")
	}
	srv := demo8Server()
	defer srv.Close()

	resp, err := http.Get(srv.URL + "/boom")
	if err != nil {
		t.Fatalf("GET /boom: no HTTP response at all: %v", err)
	}
	body, _ := io.ReadAll(resp.Body)
	resp.Body.Close()
	if resp.StatusCode != 500 || strings.Contains(string(body), "nil map") {
		t.Errorf("GET /boom = %d %s; want a generic 500", resp.StatusCode, body)
	}

	// ... and the server must still be there for the next request.
	resp, err = http.Get(srv.URL + "/ok")
	if err != nil {
		t.Fatalf("GET /ok after GET /boom: %v", err)
	}
	resp.Body.Close()
	if resp.StatusCode != 200 {
		t.Errorf("GET /ok after GET /boom = %d, want 200", resp.StatusCode)
	}
}

func TestDemo8_PanicBehindTimeoutMiddlewareKillsTheServer(t *testing.T) {
	cmd := exec.Command(os.Args[0], "-test.run=^TestDemo8Child$", "-test.count=1", "-test.v")
	cmd.Env = append(os.Environ(), "DEMO8_CHILD=1", "GOTRACEBACK=single")
	out, err := cmd.CombinedOutput()
	if err != nil {
		lines := strings.Split(string(out), "\n")
		if len(lines) > 12 {
			lines = lines[:12]
		}
		t.Fatalf("Recovery+Timeout stack, handler panics: server process ended with %v:\n%s", err, strings.Join(lines, "\n"))
	}
}
