package main

// Belongs in: cmd/glyph  (package main)
//
// C19: "after any sequence of file edits - valid, syntactically broken,
// semantically invalid, EMPTY or unreadable - the server keeps answering with
// the most recent version that loaded successfully."
// An empty (or whitespace / comment-only) file - which is what the watcher sees
// when an editor truncates the file before writing it - is accepted as a
// "successful" reload: the working server is replaced by one with no routes
// and every request gets 404.

import (
	"fmt"
	"io"
	"net"
	"net/http"
	"os"
	"path/filepath"
	"testing"
	"time"
)

func h5d3FreePort(t *testing.T) int {
	t.Helper()
	l, err := net.Listen("tcp", "127.0.0.1:0")
	if err != nil {
		t.Fatal(err)
	}
	defer l.Close()
	return l.Addr().(*net.TCPAddr).Port
}

func h5d3Get(url string) (int, string) {
	resp, err := (&http.Client{Timeout: 3 * time.Second}).Get(url)
	if err != nil {
		return -1, err.Error()
	}
	defer resp.Body.Close()
	b, _ := io.ReadAll(resp.Body)
	return resp.StatusCode, string(b)
}

func TestH5_EmptyFileReplacesTheWorkingServer(t *testing.T) {
	for name, content := range map[string]string{
		"empty (truncated) file": "",
		"whitespace only":        "\n\n   \n",
		"comment only":           "# work in progress\n",
	} {
		t.Run(name, func(t *testing.T) {
			dir := t.TempDir()
			file := filepath.Join(dir, "main.glyph")
			if err := os.WriteFile(file, []byte("@ GET /v {\n  > {version: 1}\n}\n"), 0600); err != nil {
				t.Fatal(err)
			}
			port := h5d3FreePort(t)
			m := &hotReloadManager{filePath: file, port: port, liveReloadConns: make(map[*liveReloadConn]bool)}
			if err := m.startServer(); err != nil {
				t.Fatalf("initial start: %v", err)
			}
			defer func() { m.server.Close() }()
			url := fmt.Sprintf("http://127.0.0.1:%d/v", port)

			if st, body := h5d3Get(url); st != 200 {
				t.Fatalf("precondition: v1 serves /v, got %d %s", st, body)
			}

			if err := os.WriteFile(file, []byte(content), 0600); err != nil {
				t.Fatal(err)
			}
			m.reload() // what the watcher's debounce timer runs

			st, body := h5d3Get(url)
			if st != 200 || body != "{\"version\":1}\n" {
				t.Errorf("after the file became %q:\n"+
					"  expected: GET /v -> 200 {\"version\":1} (last successfully loaded version keeps serving)\n"+
					"  actual:   GET /v -> %d %s", content, st, body)
			}
		})
	}
}
