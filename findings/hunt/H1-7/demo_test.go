package jit

import (
	"encoding/json"
	"fmt"
	"testing"
	"time"

	"github.com/glyphlang/glyph/pkg/ast"
	"github.com/glyphlang/glyph/pkg/vm"
)

// h17route returns a route answering tag after n filler declarations (n makes
// the compilation of the old definition slow enough to be overtaken).
func h17route(tag string, n int) *ast.Route {
	body := make([]ast.Statement, 0, n+1)
	for i := 0; i < n; i++ {
		body = append(body, ast.AssignStatement{
			Target: fmt.Sprintf("v%d", i),
			Value:  ast.LiteralExpr{Value: ast.IntLiteral{Value: int64(i)}},
		})
	}
	body = append(body, ast.ReturnStatement{Value: ast.LiteralExpr{Value: ast.StringLiteral{Value: tag}}})
	return &ast.Route{Path: "/r", Body: body}
}

func h17exec(t *testing.T, bc []byte) string {
	t.Helper()
	res, err := vm.NewVM().Execute(bc)
	if err != nil {
		t.Fatalf("execute: %v", err)
	}
	out, _ := json.Marshal(res)
	return string(out)
}

// History:
//
//	T1: CompileRoute("r", OLD)   cache hit, decides to promote the unit ... (paused)
//	T0: InvalidateCache("r")     the definition changed
//	T0: CompileRoute("r", NEW)   fresh unit for the new definition is cached
//	T1: ... resumes in recompileRoute, compiles OLD, stores it into the unit
//	T0: CompileRoute("r", NEW)   -> must behave like NEW
//
// T1 is paused right after it took its snapshot of the cached unit by holding
// jit.statsMux (the first lock CompileRoute takes after snapshotUnit). No
// production code is changed; the sleep only gives T1 time to reach the lock.
func TestH1_7_RecompileOvertakenByInvalidationPublishesStaleCode(t *testing.T) {
	const name = "GET /r"
	// hotPathThreshold 10: Baseline->Optimized needs 5 executions,
	// Optimized->HighlyOptimized needs 10, so with 6 recorded executions only the
	// first promotion can happen. recompileWindow 0: no waiting time.
	j := NewJITCompilerWithConfig(10, 0)
	oldRoute := h17route("old", 3000)
	newRoute := h17route("new", 0)

	if _, err := j.CompileRoute(name, oldRoute); err != nil {
		t.Fatal(err)
	}
	for i := 0; i < 6; i++ {
		j.RecordExecution(name, time.Millisecond)
	}

	j.statsMux.Lock() // T1 will block here, after snapshotUnit() returned the old unit
	t1 := make(chan struct{})
	go func() {
		defer close(t1)
		_, _ = j.CompileRoute(name, oldRoute)
	}()
	time.Sleep(100 * time.Millisecond)

	j.InvalidateCache(name)
	j.statsMux.Unlock()

	bc, err := j.CompileRoute(name, newRoute)
	if err != nil {
		t.Fatal(err)
	}
	if got := h17exec(t, bc); got != `"new"` {
		t.Fatalf("first compilation after the invalidation: got %s", got)
	}
	<-t1 // the overtaken compilation of the OLD definition finishes

	bc, err = j.CompileRoute(name, newRoute)
	if err != nil {
		t.Fatal(err)
	}
	if got := h17exec(t, bc); got != `"new"` {
		unit, _ := j.GetUnit(name)
		t.Fatalf("after InvalidateCache + recompilation of the new definition the JIT hands out stale code:\n  expected: \"new\" (what a fresh baseline compilation of the current definition returns)\n  actual:   %s (cached unit tier=%d holds the bytecode of the invalidated definition)", got, unit.Tier)
	}
}
