package main

// Belongs in cmd/glyph (package main).
//
// C07: "When a route declares an input type ... its body never runs on ... data
// violating the declaration" - history: a failed hot reload ("a source that
// cannot be ... set up must leave the previous version serving",
// cmd/glyph/server.go:43-45).

import (
	"net/http/httptest"
	"os"
	"path/filepath"
	"strings"
	"testing"
)

func TestH3FailedReloadDisablesInputValidationOfTheRunningServer(t *testing.T) {
	dir := t.TempDir()
	file := filepath.Join(dir, "main.glyph")
	m := &hotReloadManager{filePath: file, port: 0}

	const v1 = `
: NewUser {
  name: str!
}

@ POST /users {
  < input: NewUser
  > {created: input.name}
}
`
	if err := os.WriteFile(file, []byte(v1), 0o600); err != nil {
		t.Fatal(err)
	}
	running, _, err := m.prepareDevServer()
	if err != nil {
		t.Fatalf("v1 must build: %v", err)
	}

	post := func() (int, string) {
		req := httptest.NewRequest("POST", "/users", strings.NewReader(`{"name": 42}`))
		req.Header.Set("Content-Type", "application/json")
		rec := httptest.NewRecorder()
		running.Handler.ServeHTTP(rec, req)
		return rec.Code, strings.TrimSpace(rec.Body.String())
	}

	if code, body := post(); code != 400 {
		t.Fatalf("control: v1 must reject {\"name\": 42} for `name: str!`: got %d %s", code, body)
	}

	// The developer saves a half-finished edit: the type is being renamed and
	// a route redeclares a variable, which setupRoutes refuses (semantic error).
	const v2 = `
: UserDraft {
  name: str!
}

@ GET /broken {
  $ x = 1
  $ x = 2
  > x
}
`
	if err := os.WriteFile(file, []byte(v2), 0o600); err != nil {
		t.Fatal(err)
	}
	if _, _, err := m.prepareDevServer(); err == nil {
		t.Fatal("v2 was expected to fail to build")
	}

	// startServer() returns that error and keeps `running` (v1) serving.
	if code, body := post(); code != 400 {
		t.Fatalf("after the failed reload the still-running v1 server accepted {\"name\": 42} for `name: str!` and ran the body: got %d %s, want 400",
			code, body)
	}
}
