package server_test

// Demo for defect 9 (C04): the library server writes the status line before it
// serialises the result (pkg/server/handler.go: sendJSONResponse). A result
// that cannot be encoded (+Inf / NaN from float arithmetic, a cyclic object)
// is therefore reported to the client as HTTP 200 whose body is an error
// object. cmd/glyph/handlers.go: writeJSON was repaired for exactly this
// ("turned a result that cannot be encoded … into a 2xx carrying an error body
// instead of a 500"); the library path still does it.
//
// Place in pkg/server/ and run:
//   go test ./pkg/server/ -run TestDemo9 -count=1 -v

import (
	"io"
	"math"
	"net/http"
	"net/http/httptest"
	"strings"
	"testing"

	"github.com/glyphlang/glyph/pkg/server"
)

// What an interpreter hands back for  > {v: 1.0e308 * 10.0}  (float overflow
// is not an error in either engine; the value is +Inf).
type demo9Interp struct{}

func (demo9Interp) Execute(route *server.Route, ctx *server.Context) (interface{}, error) {
	return map[string]interface{}{"v": math.Inf(1)}, nil
}

func TestDemo9_UnencodableResultIsReportedAs200(t *testing.T) {
	s := server.NewServer(server.WithInterpreter(demo9Interp{}), server.WithMiddleware(server.RecoveryMiddleware()))
	if err := s.RegisterRoute(&server.Route{Method: server.GET, Path: "/inf"}); err != nil {
		t.Fatal(err)
	}
	srv := httptest.NewServer(s.GetHandler())
	defer srv.Close()

	resp, err := http.Get(srv.URL + "/inf")
	if err != nil {
		t.Fatal(err)
	}
	body, _ := io.ReadAll(resp.Body)
	resp.Body.Close()

	if resp.StatusCode < 500 {
		t.Errorf("GET /inf = %d %s; the result could not be serialised, want a 5xx", resp.StatusCode, strings.TrimSpace(string(body)))
	}

	// Same through the exported helper custom handlers use.
	s2 := server.NewServer()
	s2.RegisterRoute(&server.Route{Method: server.GET, Path: "/nan", Handler: func(ctx *server.Context) error {
		return server.SendJSON(ctx, 200, map[string]interface{}{"v": math.NaN()})
	}})
	srv2 := httptest.NewServer(s2.GetHandler())
	defer srv2.Close()
	resp, err = http.Get(srv2.URL + "/nan")
	if err != nil {
		t.Fatal(err)
	}
	body, _ = io.ReadAll(resp.Body)
	resp.Body.Close()
	if resp.StatusCode < 500 {
		t.Errorf("GET /nan = %d %s; want a 5xx", resp.StatusCode, strings.TrimSpace(string(body)))
	}
}
