package database

// Belongs in: pkg/database  (package database)
//
// C14: "rolled back entirely if [the callback] returns an error or panics at any
// point; no partial effects are visible afterwards ... including NESTED and
// back-to-back transactions."
//
// ORM.Transaction called inside an ORM.Transaction callback (with the
// transaction-aware context it was given) does not join the outer transaction:
// PostgresDB.Transaction -> Begin -> p.db.BeginTx always opens a NEW, independent
// transaction on another pooled connection and commits it on its own. When the
// outer transaction later fails and is rolled back, the inner work stays.
//
// The engine underneath is a real SQLite file database driven through
// *PostgresDB (the only driver ORM.Transaction supports; no PostgreSQL server is
// available in the sandbox). Everything exercised - Transaction, Begin,
// txFromContext, Exec routing - is driver-independent database/sql code; SQLite
// accepts the $N placeholders the ORM emits.

import (
	"context"
	"database/sql"
	"errors"
	"path/filepath"
	"testing"
	"time"
)

func h5d7PG(t *testing.T, maxConns int) *PostgresDB {
	t.Helper()
	path := filepath.Join(t.TempDir(), "h5.db")
	db, err := sql.Open("sqlite", path+"?_pragma=busy_timeout(2000)&_pragma=journal_mode(WAL)")
	if err != nil {
		t.Fatal(err)
	}
	db.SetMaxOpenConns(maxConns)
	t.Cleanup(func() { db.Close() })
	pg := &PostgresDB{config: &Config{Driver: "postgres"}, db: db}
	if _, err := pg.Exec(context.Background(), `CREATE TABLE items (id INTEGER PRIMARY KEY, name TEXT)`); err != nil {
		t.Fatal(err)
	}
	return pg
}

func TestH5_NestedTransactionSurvivesOuterRollback(t *testing.T) {
	pg := h5d7PG(t, 4)
	ctx := context.Background()
	orm := NewORM(pg, "items")

	boom := errors.New("outer step failed")
	err := orm.Transaction(ctx, func(outer context.Context) error {
		// e.g. a helper that is itself written with orm.Transaction
		if err := orm.Transaction(outer, func(inner context.Context) error {
			_, err := pg.Exec(inner, `INSERT INTO items (id, name) VALUES ($1, $2)`, 1, "written by nested tx")
			return err
		}); err != nil {
			return err
		}
		if _, err := pg.Exec(outer, `INSERT INTO items (id, name) VALUES ($1, $2)`, 2, "written by outer tx"); err != nil {
			return err
		}
		return boom // the outer transaction fails -> everything must be undone
	})
	if !errors.Is(err, boom) {
		t.Fatalf("precondition: outer transaction returns its error, got %v", err)
	}

	n, err := orm.Count(ctx)
	if err != nil {
		t.Fatal(err)
	}
	if n != 0 {
		rows, _ := orm.FindAll(ctx)
		t.Fatalf("outer transaction returned an error, so it must leave nothing behind\n"+
			"  expected: 0 rows in items\n"+
			"  actual:   %d row(s): %v", n, rows)
	}
}

// Same root cause, other symptom: because the nested call needs a SECOND pooled
// connection, with a pool of one it cannot even start - it waits for the
// connection its own caller is holding (forever without a deadline).
func TestH5_NestedTransactionSelfDeadlocksOnPoolOfOne(t *testing.T) {
	pg := h5d7PG(t, 1)
	orm := NewORM(pg, "items")
	ctx, cancel := context.WithTimeout(context.Background(), 1*time.Second)
	defer cancel()

	var innerErr error
	err := orm.Transaction(ctx, func(outer context.Context) error {
		innerErr = orm.Transaction(outer, func(inner context.Context) error {
			_, err := pg.Exec(inner, `INSERT INTO items (id, name) VALUES ($1, $2)`, 1, "nested")
			return err
		})
		return innerErr
	})
	if innerErr != nil {
		t.Fatalf("nested transaction inside a transaction\n"+
			"  expected: runs on the enclosing transaction\n"+
			"  actual:   blocked until the context deadline waiting for a second connection: inner=%v outer=%v", innerErr, err)
	}
}
