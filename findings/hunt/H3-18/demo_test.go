package main

// Belongs in cmd/glyph (package main).
//
// C06: "a request with a valid credential passes the auth check unless that
// client is currently locked out for repeated failures" - for every request
// (any Authorization header shape, casing, whitespace, scheme).
//
// RFC 9110 11.1: the auth-scheme is case-insensitive. RFC 6750 2.1:
// credentials = "Bearer" 1*SP b64token (one OR MORE spaces).

import (
	"net/http"
	"net/http/httptest"
	"path/filepath"
	"strings"
	"testing"
)

func h3d18Handler(t *testing.T, src string) http.Handler {
	t.Helper()
	module, err := parseSource(src)
	if err != nil {
		t.Fatalf("parse: %v", err)
	}
	_, _, _, router, err := setupRoutes(module, filepath.Join(t.TempDir(), "main.glyph"))
	if err != nil {
		t.Fatalf("setupRoutes: %v", err)
	}
	mux := http.NewServeMux()
	mux.HandleFunc("/", createHandler(router))
	return mux
}

func TestH3ValidBearerCredentialRejectedForSchemeCaseOrSpacing(t *testing.T) {
	t.Setenv(envJWTSecret, "s3cr3t")
	t.Setenv(envAPIKeys, "key-one")

	for _, tc := range []struct{ authType, credential string }{
		{"jwt", "s3cr3t"},
		{"apikey", "key-one"},
	} {
		for _, header := range []string{
			"Bearer " + tc.credential,  // control
			"bearer " + tc.credential,  // scheme is case-insensitive
			"BEARER " + tc.credential,  //
			"Bearer  " + tc.credential, // 1*SP
		} {
			// A fresh handler (and a fresh failure tracker) per request, so no
			// lockout is involved.
			h := h3d18Handler(t, "@ GET /me {\n  + auth("+tc.authType+")\n  > {ok: true}\n}\n")
			req := httptest.NewRequest("GET", "/me", nil)
			req.Header.Set("Authorization", header)
			rec := httptest.NewRecorder()
			h.ServeHTTP(rec, req)
			if rec.Code != 200 {
				t.Errorf("auth(%s): `Authorization: %s` carries the configured credential but got %d %s, want 200",
					tc.authType, header, rec.Code, strings.TrimSpace(rec.Body.String()))
			}
		}
	}
}
