package server

// Belongs in pkg/server (package server).
//
// C06: "A route declaring auth never runs its body or returns its data unless
// the request carries a credential configured for that auth type ... Routes
// without an auth declaration are unaffected."  (The same aliasing swaps
// per-route rate limiters, C11.)

import (
	"net/http/httptest"
	"strings"
	"testing"
)

func h3d17Passthrough() Middleware {
	return func(next RouteHandler) RouteHandler {
		return func(ctx *Context) error { return next(ctx) }
	}
}

func TestH3RegisterRouteAliasesGlobalMiddlewareSlice(t *testing.T) {
	// Three global middlewares: append() grows the slice 1 -> 2 -> 4, leaving
	// len 3 / cap 4, i.e. one spare slot shared by every later append.
	s := NewServer(
		WithMiddleware(h3d17Passthrough()),
		WithMiddleware(h3d17Passthrough()),
		WithMiddleware(h3d17Passthrough()),
	)

	secretRan := false
	if err := s.RegisterRoute(&Route{
		Method: GET,
		Path:   "/secret",
		Handler: func(ctx *Context) error {
			secretRan = true
			return SendJSON(ctx, 200, map[string]interface{}{"secret": "s3cr3t-data"})
		},
		Middlewares: []Middleware{BasicAuthMiddleware(map[string]bool{"valid-token": true})},
	}); err != nil {
		t.Fatal(err)
	}

	// Control: right after registration the route is protected.
	rec := httptest.NewRecorder()
	s.GetHandler().ServeHTTP(rec, httptest.NewRequest("GET", "/secret", nil))
	if rec.Code != 401 || secretRan {
		t.Fatalf("control: unauthenticated GET /secret before the second registration: got %d (ran=%v), want 401", rec.Code, secretRan)
	}

	// Registering any other route that has a middleware of its own ...
	if err := s.RegisterRoute(&Route{
		Method:      GET,
		Path:        "/public",
		Handler:     func(ctx *Context) error { return SendJSON(ctx, 200, map[string]interface{}{"public": true}) },
		Middlewares: []Middleware{h3d17Passthrough()},
	}); err != nil {
		t.Fatal(err)
	}

	// ... replaces /secret's auth middleware with it.
	rec = httptest.NewRecorder()
	s.GetHandler().ServeHTTP(rec, httptest.NewRequest("GET", "/secret", nil))
	if rec.Code != 401 || secretRan {
		t.Fatalf("unauthenticated GET /secret after registering /public: got %d %s (body ran=%v); want 401 and the body not run",
			rec.Code, strings.TrimSpace(rec.Body.String()), secretRan)
	}
}
