package websocket

import (
	"fmt"
	"net/http"
	"net/http/httptest"
	"strings"
	"testing"
	"time"

	"github.com/gorilla/websocket"
)

// Demo A (deterministic, white box): a join processed after the connection's
// unregister leaves the disconnected connection inside the room, with its send
// channel already closed. The next room broadcast sends on that closed channel.
func TestDemoJoinAfterDisconnectLeavesZombieMember(t *testing.T) {
	hub := NewHub()
	go hub.Run()
	<-hub.started

	conn := NewConnection("gone", nil, hub)
	hub.register <- conn
	hub.unregister <- conn // the disconnect is fully processed (unbuffered channel + next op below)

	// A join_room message of that connection that was still queued in
	// hub.handleMessage (ReadPump enqueues messages, then sends unregister; the
	// hub's select picks among ready channels at random).
	hub.handleMessage <- &MessageContext{Conn: conn, Message: &Message{Type: MessageTypeJoinRoom, Room: "lobby"}}
	hub.register <- NewConnection("barrier", nil, hub) // hub loop has handled the message once this returns
	time.Sleep(50 * time.Millisecond)

	room, ok := hub.GetRoomManager().GetRoom("lobby")
	if !ok {
		return // join refused: correct
	}
	if room.Has(conn) || conn.IsInRoom("lobby") {
		t.Errorf("disconnected connection is a room member: room.Has=%v conn.IsInRoom=%v roomSize=%d",
			room.Has(conn), conn.IsInRoom("lobby"), room.Size())
	}

	// What the hub loop does for the next ws.broadcast_to_room("lobby", ...):
	func() {
		defer func() {
			if r := recover(); r != nil {
				t.Errorf("room broadcast panicked (this would kill the hub goroutine and the process): %v", r)
			}
		}()
		room.Broadcast([]byte("hello"), nil)
	}()
}

// Demo B (end to end, real sockets): clients that send join_room and hang up
// while the hub loop is busy. Half of them (random select) end up as zombies.
func TestDemoJoinRacingDisconnectEndToEnd(t *testing.T) {
	server := NewServer()
	hub := server.GetHub()
	hub.OnEvent("slow", func(ctx *MessageContext) error {
		time.Sleep(150 * time.Millisecond) // any handler that takes a while (DB call, ...)
		return nil
	})
	ts := httptest.NewServer(http.HandlerFunc(server.HandleWebSocket))
	defer ts.Close()
	wsURL := "ws" + strings.TrimPrefix(ts.URL, "http")

	for i := 0; i < 12; i++ {
		c, _, err := websocket.DefaultDialer.Dial(wsURL, nil)
		if err != nil {
			t.Fatal(err)
		}
		c.WriteMessage(websocket.TextMessage, []byte(`{"type":"json","event":"slow"}`))
		c.WriteMessage(websocket.TextMessage, []byte(fmt.Sprintf(`{"type":"join_room","room":"lobby"}`)))
		c.Close()
		time.Sleep(200 * time.Millisecond)
	}
	if !pollCondition(func() bool { return hub.GetConnectionCount() == 0 }, 5*time.Second) {
		t.Fatalf("connections still registered: %d", hub.GetConnectionCount())
	}
	time.Sleep(300 * time.Millisecond)
	if n := hub.GetRoomManager().GetRoomSize("lobby"); n != 0 {
		t.Errorf("all clients are disconnected (hub has 0 connections) but room lobby still has %d members", n)
	}
}
