package formatter

// Demo for C18: identifiers that are spelled like an expanded-syntax keyword
// (type, queue, cron, route, ...) are ordinary identifiers in compact .glyph
// source, but `glyph expand` leaves them as they are and the ExpandedLexer then
// reads every one of them as the sigil token, so the expanded file no longer
// parses (or parses to something else).
//
// Belongs in: pkg/formatter (package formatter).

import (
	"fmt"
	"reflect"
	"strings"
	"testing"

	"github.com/glyphlang/glyph/pkg/ast"
	"github.com/glyphlang/glyph/pkg/parser"
)

func TestDemoC18_ExpandedTextWithKeywordSpelledIdentifiers(t *testing.T) {
	cases := []struct{ name, src string }{
		{"object field named type", "@ GET /m {\n  > {type: \"admin\"}\n}\n"},
		{"field access .type", "@ POST /m {\n  $ t = input.type\n  > {t: t}\n}\n"},
		{"type-def field named type", ": Job {\n  type: str!\n  id: int!\n}\n"},
		{"variable named queue", "@ GET /m {\n  $ queue = 1\n  > {q: queue}\n}\n"},
		{"path segment /cron/", "@ GET /cron/status {\n  > {ok: true}\n}\n"},
		{"`@ route /path [METHOD]` form (examples/switch_test.glyph:1)", "@ route /status/:code [GET] {\n  > {ok: true}\n}\n"},
		{"variable named use", "@ GET /m {\n  $ use = 1\n  > {u: use}\n}\n"},
	}
	for _, c := range cases {
		want, err := treeD1(c.src, false)
		if err != nil {
			t.Fatalf("%s: original must parse: %v", c.name, err)
		}
		expanded := ExpandSource(c.src)
		got, err := treeD1(expanded, true)
		if err != nil {
			t.Errorf("%s: expanded text does not parse: %v\n--- expanded:\n%s", c.name, firstLineD1(err), expanded)
			continue
		}
		if got != want {
			t.Errorf("%s: expanded text parses to a different tree\n--- expanded:\n%s", c.name, expanded)
		}
	}
}

func firstLineD1(err error) string {
	s := strings.Join(strings.Fields(err.Error()), " ")
	if len(s) > 160 {
		s = s[:160]
	}
	return s
}

// ---- helpers (position-stripped AST dump; compact / expanded parse) ----

var posTypeD1 = reflect.TypeOf(ast.Pos{})

func dumpD1(v reflect.Value, sb *strings.Builder) {
	if !v.IsValid() {
		sb.WriteString("<nil>")
		return
	}
	if v.Type() == posTypeD1 {
		return
	}
	switch v.Kind() {
	case reflect.Ptr, reflect.Interface:
		if v.IsNil() {
			sb.WriteString("nil")
			return
		}
		dumpD1(v.Elem(), sb)
	case reflect.Struct:
		sb.WriteString(v.Type().Name() + "{")
		for i := 0; i < v.NumField(); i++ {
			f := v.Type().Field(i)
			if f.Type == posTypeD1 {
				continue
			}
			sb.WriteString(f.Name + ":")
			dumpD1(v.Field(i), sb)
			sb.WriteString(" ")
		}
		sb.WriteString("}")
	case reflect.Slice, reflect.Array:
		sb.WriteString("[")
		for i := 0; i < v.Len(); i++ {
			dumpD1(v.Index(i), sb)
			sb.WriteString(",")
		}
		sb.WriteString("]")
	case reflect.String:
		sb.WriteString(fmt.Sprintf("%q", v.String()))
	default:
		sb.WriteString(fmt.Sprintf("%v", v.Interface()))
	}
}

// treeD1 parses src with the compact lexer (expanded=false, what `glyph run x.glyph`
// does) or the expanded lexer (expanded=true, what is done for x.glyphx) and
// returns the syntax tree with all source positions removed.
func treeD1(src string, expanded bool) (string, error) {
	var toks []parser.Token
	var err error
	if expanded {
		toks, err = parser.NewExpandedLexer(src).Tokenize()
	} else {
		toks, err = parser.NewLexer(src).Tokenize()
	}
	if err != nil {
		return "", fmt.Errorf("lexer error: %w", err)
	}
	m, err := parser.NewParser(toks).Parse()
	if err != nil {
		return "", fmt.Errorf("parse error: %w", err)
	}
	var sb strings.Builder
	dumpD1(reflect.ValueOf(m), &sb)
	return sb.String(), nil
}
