package compiler

import (
	"encoding/json"
	"testing"

	"github.com/glyphlang/glyph/pkg/ast"
	"github.com/glyphlang/glyph/pkg/vm"
)

// `> {ok: true} :: 201` built through the library API (pointer-form nodes, the
// form the optimizer rewrites). Every optimisation level must produce the same
// result as level 0.
func TestH1_1_OptimizerKeepsReturnStatus(t *testing.T) {
	body := []ast.Statement{
		&ast.ReturnStatement{
			Value: &ast.ObjectExpr{Fields: []ast.ObjectField{
				{Key: "ok", Value: &ast.LiteralExpr{Value: ast.BoolLiteral{Value: true}}},
			}},
			Status: 201,
		},
	}

	run := func(level OptimizationLevel) string {
		bc, err := NewCompilerWithOptLevel(level).CompileRoute(&ast.Route{Path: "/items", Method: ast.Post, Body: body})
		if err != nil {
			t.Fatalf("level %d: compile: %v", level, err)
		}
		res, err := vm.NewVM().Execute(bc)
		if err != nil {
			t.Fatalf("level %d: execute: %v", level, err)
		}
		out, _ := json.Marshal(res)
		return string(out)
	}

	want := run(OptNone)
	if want != `{"__glyph_body":{"ok":true},"__glyph_status":201}` {
		t.Fatalf("unexpected unoptimised result %s", want)
	}
	for _, level := range []OptimizationLevel{OptBasic, OptAggressive} {
		if got := run(level); got != want {
			t.Errorf("opt level %d changed the result of `> {ok: true} :: 201`:\n  expected (level 0): %s\n  actual:             %s  (the 201 status is gone, the client gets 200)", level, want, got)
		}
	}
}
