package formatter

// Demo for C18: string literals are copied verbatim by `glyph expand`, but the
// ExpandedLexer decodes escape sequences differently from the compact Lexer
// (it knows only \n \t \r \" \' \\ and turns every other "\c" into "c"), so
// the expanded text parses to a tree with different string values.
//
// Belongs in: pkg/formatter (package formatter).

import (
	"fmt"
	"reflect"
	"strings"
	"testing"

	"github.com/glyphlang/glyph/pkg/ast"
	"github.com/glyphlang/glyph/pkg/parser"
)

func TestDemoC18_ExpandedTextKeepsStringValues(t *testing.T) {
	cases := []struct{ name, lit string }{
		{`\x41`, `"\x41"`},
		{`\u00e9`, `"caf\u00e9"`},
		{`\0`, `"a\0b"`},
		{`\a \b \f \v`, `"\a\b\f\v"`},
	}
	for _, c := range cases {
		src := "@ GET /m {\n  > {s: " + c.lit + "}\n}\n"
		want, err := treeD4(src, false)
		if err != nil {
			t.Fatalf("%s: original must parse: %v", c.name, err)
		}
		expanded := ExpandSource(src)
		got, err := treeD4(expanded, true)
		if err != nil {
			t.Errorf("%s: expanded text does not parse: %v", c.name, err)
			continue
		}
		if got != want {
			ct, _ := parser.NewLexer(c.lit).Tokenize()
			et, _ := parser.NewExpandedLexer(c.lit).Tokenize()
			t.Errorf("%s: literal %s is %q in the .glyph file but %q in the expanded .glyphx file",
				c.name, c.lit, ct[0].Literal, et[0].Literal)
		}
	}
}

// ---- helpers (position-stripped AST dump; compact / expanded parse) ----

var posTypeD4 = reflect.TypeOf(ast.Pos{})

func dumpD4(v reflect.Value, sb *strings.Builder) {
	if !v.IsValid() {
		sb.WriteString("<nil>")
		return
	}
	if v.Type() == posTypeD4 {
		return
	}
	switch v.Kind() {
	case reflect.Ptr, reflect.Interface:
		if v.IsNil() {
			sb.WriteString("nil")
			return
		}
		dumpD4(v.Elem(), sb)
	case reflect.Struct:
		sb.WriteString(v.Type().Name() + "{")
		for i := 0; i < v.NumField(); i++ {
			f := v.Type().Field(i)
			if f.Type == posTypeD4 {
				continue
			}
			sb.WriteString(f.Name + ":")
			dumpD4(v.Field(i), sb)
			sb.WriteString(" ")
		}
		sb.WriteString("}")
	case reflect.Slice, reflect.Array:
		sb.WriteString("[")
		for i := 0; i < v.Len(); i++ {
			dumpD4(v.Index(i), sb)
			sb.WriteString(",")
		}
		sb.WriteString("]")
	case reflect.String:
		sb.WriteString(fmt.Sprintf("%q", v.String()))
	default:
		sb.WriteString(fmt.Sprintf("%v", v.Interface()))
	}
}

// treeD4 parses src with the compact lexer (expanded=false, what `glyph run x.glyph`
// does) or the expanded lexer (expanded=true, what is done for x.glyphx) and
// returns the syntax tree with all source positions removed.
func treeD4(src string, expanded bool) (string, error) {
	var toks []parser.Token
	var err error
	if expanded {
		toks, err = parser.NewExpandedLexer(src).Tokenize()
	} else {
		toks, err = parser.NewLexer(src).Tokenize()
	}
	if err != nil {
		return "", fmt.Errorf("lexer error: %w", err)
	}
	m, err := parser.NewParser(toks).Parse()
	if err != nil {
		return "", fmt.Errorf("parse error: %w", err)
	}
	var sb strings.Builder
	dumpD4(reflect.ValueOf(m), &sb)
	return sb.String(), nil
}
