package compiler_test

import (
	"fmt"
	"strings"
	"testing"

	"github.com/glyphlang/glyph/pkg/ast"
	"github.com/glyphlang/glyph/pkg/compiler"
	"github.com/glyphlang/glyph/pkg/interpreter"
	"github.com/glyphlang/glyph/pkg/parser"
	"github.com/glyphlang/glyph/pkg/vm"
)

func demoParseRoute(t *testing.T, src string) (*ast.Module, *ast.Route) {
	t.Helper()
	toks, err := parser.NewLexer(src).Tokenize()
	if err != nil {
		t.Fatalf("lex: %v", err)
	}
	mod, err := parser.NewParser(toks).Parse()
	if err != nil {
		t.Fatalf("parse: %v", err)
	}
	for _, it := range mod.Items {
		if r, ok := it.(*ast.Route); ok {
			return mod, r
		}
	}
	t.Fatal("no route")
	return nil, nil
}

// Demo: the compiler happily emits N x PUSH + BUILD_ARRAY N for an array literal
// of any size, but vm.Push silently discards every value beyond maxStackSize
// (10000). The emitted program is therefore not executed as emitted: pushes
// vanish without a diagnostic and the VM later reports a bogus
// "stack underflow" for a program that never underflows. The interpreter runs
// the same source fine.
func TestDemoEmittedProgramLosesPushesAtStackCap(t *testing.T) {
	for _, n := range []int{10000, 10001} {
		var sb strings.Builder
		sb.WriteString("@ GET /x {\n  $ a = [")
		for i := 0; i < n; i++ {
			if i > 0 {
				sb.WriteString(", ")
			}
			fmt.Fprintf(&sb, "%d", i)
		}
		sb.WriteString("]\n  > length(a)\n}\n")

		mod, route := demoParseRoute(t, sb.String())

		interp := interpreter.NewInterpreter()
		if err := interp.LoadModule(*mod); err != nil {
			t.Fatal(err)
		}
		resp, err := interp.ExecuteRoute(route, &interpreter.Request{Path: "/x", Method: "GET"})
		if err != nil || fmt.Sprint(resp.Body) != fmt.Sprint(n) {
			t.Fatalf("n=%d interpreter: body=%v err=%v", n, resp.Body, err)
		}

		bc, err := compiler.NewCompilerWithOptLevel(compiler.OptNone).CompileRoute(route)
		if err != nil {
			t.Fatalf("n=%d: compiler refused the program: %v", n, err) // would be an acceptable outcome
		}
		got, err := vm.NewVM().Execute(bc)
		if err != nil {
			t.Errorf("n=%d: compiler emitted %d bytes without complaint, interpreter returns %d, VM fails: %v", n, len(bc), n, err)
			continue
		}
		if fmt.Sprint(vm.ToInterface(got)) != fmt.Sprint(n) {
			t.Errorf("n=%d: VM returned %v", n, got)
		}
	}
}

// The same silent drop, observed directly on hand-written (well-formed) bytecode:
// 10001 x PUSH const0, then 10001 x POP must leave an empty stack without error.
func TestDemoPushBeyondCapIsSilentlyDropped(t *testing.T) {
	bc := []byte{'G', 'L', 'Y', 'P', 1, 0, 0, 0, 1, 0, 0, 0, 0x01, 7, 0, 0, 0, 0, 0, 0, 0}
	const n = 10001
	body := make([]byte, 0, n*6+1)
	for i := 0; i < n; i++ {
		body = append(body, byte(vm.OpPush), 0, 0, 0, 0)
	}
	for i := 0; i < n; i++ {
		body = append(body, byte(vm.OpPop))
	}
	body = append(body, byte(vm.OpHalt))
	l := len(body)
	bc = append(bc, byte(l), byte(l>>8), byte(l>>16), byte(l>>24))
	bc = append(bc, body...)
	if _, err := vm.NewVM().Execute(bc); err != nil {
		t.Errorf("balanced %d pushes / %d pops: %v (a push was dropped without any diagnostic)", n, n, err)
	}
}
