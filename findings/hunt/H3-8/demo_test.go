package main

// Belongs in cmd/glyph (package main).
//
// C07: "its body never runs on ... a missing or null required (`!`) field ...
// defaults are applied exactly to absent fields."

import (
	"net/http"
	"net/http/httptest"
	"path/filepath"
	"strings"
	"testing"
)

func h3d8Serve(t *testing.T, src string, interpret bool, req *http.Request) *httptest.ResponseRecorder {
	t.Helper()
	module, err := parseSource(src)
	if err != nil {
		t.Fatalf("parse: %v", err)
	}
	useCompiler, _, _, router, err := setupRoutes(module, filepath.Join(t.TempDir(), "main.glyph"), interpret)
	if err != nil {
		t.Fatalf("setupRoutes: %v", err)
	}
	if useCompiler == interpret {
		t.Fatalf("wanted interpret=%v, got useCompiler=%v", interpret, useCompiler)
	}
	mux := http.NewServeMux()
	mux.HandleFunc("/", createHandler(router))
	rec := httptest.NewRecorder()
	mux.ServeHTTP(rec, req)
	return rec
}

func TestH3NullAcceptedForRequiredFieldThatHasADefault(t *testing.T) {
	const src = `
: NewUser {
  name: str!
  role: str! = "member"
}

@ POST /users {
  < input: NewUser
  > {name: input.name, role: input.role}
}
`
	for _, mode := range []struct {
		name      string
		interpret bool
	}{{"interpreted", true}, {"compiled", false}} {
		// control: without the default the same null is refused
		req := httptest.NewRequest("POST", "/users", strings.NewReader(`{"name": null, "role": "x"}`))
		req.Header.Set("Content-Type", "application/json")
		if rec := h3d8Serve(t, src, mode.interpret, req); rec.Code != 400 {
			t.Errorf("%s mode: control: null for `name: str!` got %d, want 400", mode.name, rec.Code)
		}

		req = httptest.NewRequest("POST", "/users", strings.NewReader(`{"name": "ada", "role": null}`))
		req.Header.Set("Content-Type", "application/json")
		rec := h3d8Serve(t, src, mode.interpret, req)
		if rec.Code < 400 || rec.Code > 499 {
			t.Errorf("%s mode: `role: str! = \"member\"` is a required (non-null) field and the request sends role=null "+
				"(present, so the default does not apply): the body ran and answered %d %s; want a 4xx",
				mode.name, rec.Code, strings.TrimSpace(rec.Body.String()))
		}
	}
}
