package main

// Belongs in cmd/glyph (package main).
//
// C07: "its body never runs on - and the client never receives - data violating
// the declaration: ... a wrongly typed field ... for every type definition
// (nesting, lists, optionals, unions, defaults) ... both execution modes."

import (
	"net/http"
	"net/http/httptest"
	"path/filepath"
	"strings"
	"testing"
)

func h3d7Serve(t *testing.T, src string, interpret bool, req *http.Request) *httptest.ResponseRecorder {
	t.Helper()
	module, err := parseSource(src)
	if err != nil {
		t.Fatalf("parse: %v", err)
	}
	useCompiler, _, _, router, err := setupRoutes(module, filepath.Join(t.TempDir(), "main.glyph"), interpret)
	if err != nil {
		t.Fatalf("setupRoutes: %v", err)
	}
	if useCompiler == interpret {
		t.Fatalf("wanted interpret=%v, got useCompiler=%v", interpret, useCompiler)
	}
	mux := http.NewServeMux()
	mux.HandleFunc("/", createHandler(router))
	rec := httptest.NewRecorder()
	mux.ServeHTTP(rec, req)
	return rec
}

const h3d7Src = `
: Addr {
  zip: str!
}

: Order {
  tags: List[str]
  ship: Addr?
  bill: Addr | str
  plain: Addr
  arr: [str]
}

@ POST /orders {
  < input: Order
  > {accepted: input}
}

@ GET /addrs -> List[Addr] {
  > [{zip: 12345}, {nozip: true}]
}
`

func TestH3CompositeFieldTypesAreNotDescendedInto(t *testing.T) {
	for _, mode := range []struct {
		name      string
		interpret bool
	}{{"interpreted", true}, {"compiled", false}} {
		for _, tc := range []struct{ body, why string }{
			// controls: the checker does descend into Addr and [str]
			{`{"plain": {"zip": 5}}`, "control: plain.zip must be a str"},
			{`{"arr": [1]}`, "control: arr elements must be str"},
			// defects
			{`{"tags": [1, {"a": 2}]}`, "tags: List[str] elements must be str"},
			{`{"ship": {"zip": 5}}`, "ship: Addr? - zip must be a str"},
			{`{"ship": {}}`, "ship: Addr? - zip is required"},
			{`{"bill": {"zip": 5}}`, "bill: Addr | str - zip must be a str"},
		} {
			req := httptest.NewRequest("POST", "/orders", strings.NewReader(tc.body))
			req.Header.Set("Content-Type", "application/json")
			rec := h3d7Serve(t, h3d7Src, mode.interpret, req)
			if rec.Code < 400 || rec.Code > 499 {
				t.Errorf("%s mode: body %s violates Order (%s) but the route body ran: %d %s; want a 4xx",
					mode.name, tc.body, tc.why, rec.Code, strings.TrimSpace(rec.Body.String()))
			}
		}
	}

	// Return side, interpreted mode (compiled mode checks no return type at
	// all, see H3-3): -> List[Addr] lets through elements that are not Addr.
	rec := h3d7Serve(t, h3d7Src, true, httptest.NewRequest("GET", "/addrs", nil))
	if rec.Code < 500 {
		t.Errorf("interpreted mode: route declares -> List[Addr] but the client received %d %s; want a 5xx",
			rec.Code, strings.TrimSpace(rec.Body.String()))
	}
}
