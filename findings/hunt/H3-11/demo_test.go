package main

// Belongs in cmd/glyph (package main).
//
// C07: "When a route declares ... typed query parameters ... its body never runs
// on ... data violating the declaration: ... an unparsable typed query value
// yields a 4xx" (both modes).

import (
	"net/http"
	"net/http/httptest"
	"path/filepath"
	"strings"
	"testing"
)

func h3d11Serve(t *testing.T, src string, interpret bool, req *http.Request) *httptest.ResponseRecorder {
	t.Helper()
	module, err := parseSource(src)
	if err != nil {
		t.Fatalf("parse: %v", err)
	}
	useCompiler, _, _, router, err := setupRoutes(module, filepath.Join(t.TempDir(), "main.glyph"), interpret)
	if err != nil {
		t.Fatalf("setupRoutes: %v", err)
	}
	if useCompiler == interpret {
		t.Fatalf("wanted interpret=%v, got useCompiler=%v", interpret, useCompiler)
	}
	mux := http.NewServeMux()
	mux.HandleFunc("/", createHandler(router))
	rec := httptest.NewRecorder()
	mux.ServeHTTP(rec, req)
	return rec
}

func TestH3OptionalTypedQueryParamIsNotConverted(t *testing.T) {
	const src = `
@ GET /items {
  ? page: int?
  ? ratio: float?
  > {page: page, ratio: ratio}
}
`
	for _, mode := range []struct {
		name      string
		interpret bool
	}{{"interpreted", true}, {"compiled", false}} {
		rec := h3d11Serve(t, src, mode.interpret, httptest.NewRequest("GET", "/items?page=abc", nil))
		if rec.Code < 400 || rec.Code > 499 {
			t.Errorf("%s mode: `? page: int?` with ?page=abc: the body ran and answered %d %s; want a 4xx",
				mode.name, rec.Code, strings.TrimSpace(rec.Body.String()))
		}

		rec = h3d11Serve(t, src, mode.interpret, httptest.NewRequest("GET", "/items?page=5&ratio=0.5", nil))
		const want = `{"page":5,"ratio":0.5}`
		if got := strings.TrimSpace(rec.Body.String()); rec.Code != 200 || got != want {
			t.Errorf("%s mode: `? page: int?`, `? ratio: float?` with ?page=5&ratio=0.5: got %d %s, want 200 %s (numbers, not strings)",
				mode.name, rec.Code, got, want)
		}
	}
}
