package compiler

import (
	"encoding/json"
	"testing"

	"github.com/glyphlang/glyph/pkg/ast"
	"github.com/glyphlang/glyph/pkg/vm"
)

// h14ws is a WebSocketHandler whose connection count changes on every read,
// and which counts how often it is read.
type h14ws struct{ reads int }

func (h *h14ws) Send(interface{}) error                    { return nil }
func (h *h14ws) Broadcast(interface{}) error               { return nil }
func (h *h14ws) BroadcastToRoom(string, interface{}) error { return nil }
func (h *h14ws) JoinRoom(string) error                     { return nil }
func (h *h14ws) LeaveRoom(string) error                    { return nil }
func (h *h14ws) Close(string) error                        { return nil }
func (h *h14ws) GetRooms() []string                        { return nil }
func (h *h14ws) GetRoomClients(string) []string            { return nil }
func (h *h14ws) GetConnectionID() string                   { return "c" }
func (h *h14ws) GetUptime() int64                          { return 0 }
func (h *h14ws) GetConnectionCount() int                   { h.reads++; return h.reads * 10 }

func h14run(t *testing.T, level OptimizationLevel, expr ast.Expr, locals map[string]vm.Value) (string, int) {
	t.Helper()
	path := "/t"
	for k := range locals {
		path += "/:" + k
	}
	body := []ast.Statement{&ast.ReturnStatement{Value: expr}}
	bc, err := NewCompilerWithOptLevel(level).CompileRoute(&ast.Route{Path: path, Body: body})
	if err != nil {
		return "compile error: " + err.Error(), 0
	}
	h := &h14ws{}
	m := vm.NewVM()
	m.SetWebSocketHandler(h)
	for k, v := range locals {
		m.SetLocal(k, v)
	}
	res, err := m.Execute(bc)
	if err != nil {
		return "runtime error: " + err.Error(), h.reads
	}
	out, _ := json.Marshal(res)
	return string(out), h.reads
}

// Strength reduction rewrites e * 2 into e + e for any operand e.
func TestH1_4_StrengthReductionDuplicatesOperand(t *testing.T) {
	two := &ast.LiteralExpr{Value: ast.IntLiteral{Value: 2}}

	// 1. the operand is a call: it is now evaluated twice
	call := &ast.BinaryOpExpr{Op: ast.Mul, Left: &ast.FunctionCallExpr{Name: "ws.get_connection_count"}, Right: two}
	want, wantReads := h14run(t, OptNone, call, nil)
	got, gotReads := h14run(t, OptAggressive, call, nil)
	if got != want || gotReads != wantReads {
		t.Errorf("> ws.get_connection_count() * 2\n  expected (opt level 0): result %s, handler read %d time(s)\n  actual (OptAggressive): result %s, handler read %d time(s)",
			want, wantReads, got, gotReads)
	}

	// 2. * and + are not interchangeable for every type: "ab" * 2 is a type error, "ab" + "ab" is not
	str := &ast.BinaryOpExpr{Op: ast.Mul, Left: &ast.VariableExpr{Name: "x"}, Right: two}
	locals := map[string]vm.Value{"x": vm.StringValue{Val: "ab"}}
	want, _ = h14run(t, OptNone, str, locals)
	got, _ = h14run(t, OptAggressive, str, locals)
	if got != want {
		t.Errorf("> x * 2 with x = \"ab\"\n  expected (opt level 0): %s\n  actual (OptAggressive): %s", want, got)
	}
}
