package main

// Belongs in cmd/glyph (package main).
//
// C07: "When a route declares an input type ... its body never runs on ... data
// violating the declaration" - for every type (lists, optionals, unions).

import (
	"net/http"
	"net/http/httptest"
	"path/filepath"
	"strings"
	"testing"
)

func h3d9Serve(t *testing.T, src string, interpret bool, req *http.Request) *httptest.ResponseRecorder {
	t.Helper()
	module, err := parseSource(src)
	if err != nil {
		t.Fatalf("parse: %v", err)
	}
	useCompiler, _, _, router, err := setupRoutes(module, filepath.Join(t.TempDir(), "main.glyph"), interpret)
	if err != nil {
		t.Fatalf("setupRoutes: %v", err)
	}
	if useCompiler == interpret {
		t.Fatalf("wanted interpret=%v, got useCompiler=%v", interpret, useCompiler)
	}
	mux := http.NewServeMux()
	mux.HandleFunc("/", createHandler(router))
	rec := httptest.NewRecorder()
	mux.ServeHTTP(rec, req)
	return rec
}

func TestH3InputTypeThatIsNotABareNameIsNeverEnforced(t *testing.T) {
	const types = `
: Item {
  name: str!
}
: Other {
  id: int!
}
`
	for _, decl := range []string{"Item?", "Item | Other", "[Item]", "List[Item]"} {
		src := types + "\n@ POST /items {\n  < input: " + decl + "\n  > {ran: true, got: input}\n}\n"
		for _, mode := range []struct {
			name      string
			interpret bool
		}{{"interpreted", true}, {"compiled", false}} {
			req := httptest.NewRequest("POST", "/items", strings.NewReader(`{"name": 5, "id": "x"}`))
			req.Header.Set("Content-Type", "application/json")
			rec := h3d9Serve(t, src, mode.interpret, req)
			if rec.Code < 400 || rec.Code > 499 {
				t.Errorf("%s mode: `< input: %s` and body {\"name\": 5, \"id\": \"x\"} (matches neither Item nor Other, and is not a list): "+
					"the body ran and answered %d %s; want a 4xx",
					mode.name, decl, rec.Code, strings.TrimSpace(rec.Body.String()))
			}
		}
	}
}
