package formatter

// Demo for C18: the ExpandedLexer glues "--" and the following word into one
// IDENT token ("--name"), while the compact Lexer produces MINUS MINUS IDENT
// and the parser builds a flag parameter from that. Text that contains "--" is
// not touched by `glyph expand`, so the expanded file parses to a different
// tree (a positional parameter literally called "--name") or not at all.
//
// Belongs in: pkg/formatter (package formatter).

import (
	"fmt"
	"reflect"
	"strings"
	"testing"

	"github.com/glyphlang/glyph/pkg/ast"
	"github.com/glyphlang/glyph/pkg/parser"
)

func TestDemoC18_ExpandedTextKeepsFlagParameters(t *testing.T) {
	cases := []struct{ name, src string }{
		{"command flag (examples/expand-demo/main.glyph:47)",
			"! greet --name {\n  $ msg = \"Hello \" + name\n  > {greeting: msg}\n}\n"},
		{"typed flag with default (examples/cli-demo/main.glyph)",
			"! greet name: str! --formal: bool = false {\n  > {n: name, f: formal}\n}\n"},
		{"subtraction of a negative number", "@ GET /m {\n  $ a = 5\n  $ b = a--1\n  > {b: b}\n}\n"},
	}
	for _, c := range cases {
		want, err := treeD5(c.src, false)
		if err != nil {
			t.Fatalf("%s: original must parse: %v", c.name, err)
		}
		expanded := ExpandSource(c.src)
		got, err := treeD5(expanded, true)
		if err != nil {
			t.Errorf("%s: expanded text does not parse: %s\n--- expanded:\n%s", c.name,
				strings.Join(strings.Fields(err.Error()), " "), expanded)
			continue
		}
		if got != want {
			t.Errorf("%s: expanded text parses to a different tree\n--- expanded:\n%s\n--- tree of original:\n%s\n--- tree of expanded:\n%s",
				c.name, expanded, want, got)
		}
	}
}

// ---- helpers (position-stripped AST dump; compact / expanded parse) ----

var posTypeD5 = reflect.TypeOf(ast.Pos{})

func dumpD5(v reflect.Value, sb *strings.Builder) {
	if !v.IsValid() {
		sb.WriteString("<nil>")
		return
	}
	if v.Type() == posTypeD5 {
		return
	}
	switch v.Kind() {
	case reflect.Ptr, reflect.Interface:
		if v.IsNil() {
			sb.WriteString("nil")
			return
		}
		dumpD5(v.Elem(), sb)
	case reflect.Struct:
		sb.WriteString(v.Type().Name() + "{")
		for i := 0; i < v.NumField(); i++ {
			f := v.Type().Field(i)
			if f.Type == posTypeD5 {
				continue
			}
			sb.WriteString(f.Name + ":")
			dumpD5(v.Field(i), sb)
			sb.WriteString(" ")
		}
		sb.WriteString("}")
	case reflect.Slice, reflect.Array:
		sb.WriteString("[")
		for i := 0; i < v.Len(); i++ {
			dumpD5(v.Index(i), sb)
			sb.WriteString(",")
		}
		sb.WriteString("]")
	case reflect.String:
		sb.WriteString(fmt.Sprintf("%q", v.String()))
	default:
		sb.WriteString(fmt.Sprintf("%v", v.Interface()))
	}
}

// treeD5 parses src with the compact lexer (expanded=false, what `glyph run x.glyph`
// does) or the expanded lexer (expanded=true, what is done for x.glyphx) and
// returns the syntax tree with all source positions removed.
func treeD5(src string, expanded bool) (string, error) {
	var toks []parser.Token
	var err error
	if expanded {
		toks, err = parser.NewExpandedLexer(src).Tokenize()
	} else {
		toks, err = parser.NewLexer(src).Tokenize()
	}
	if err != nil {
		return "", fmt.Errorf("lexer error: %w", err)
	}
	m, err := parser.NewParser(toks).Parse()
	if err != nil {
		return "", fmt.Errorf("parse error: %w", err)
	}
	var sb strings.Builder
	dumpD5(reflect.ValueOf(m), &sb)
	return sb.String(), nil
}
