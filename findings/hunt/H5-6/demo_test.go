package database

// Belongs in: pkg/database  (package database)
//
// C13: "any identifier, operator, SORT DIRECTION ... outside the safe grammar is
// rejected before reaching the database", for every column/direction string
// incl. semicolons and unicode look-alikes.
//
// QueryBuilder.OrderBy glues column and direction into one string and Build()
// re-splits it with strings.Fields, validates word 0 and word 1 and silently
// DROPS every further word. So the strings actually validated are not the
// strings the caller passed: junk after a valid prefix is accepted, a column
// containing (unicode) whitespace is accepted and re-interpreted, and the
// caller's real direction can be ignored.

import (
	"testing"
)

func TestH5_OrderByAcceptsStringsOutsideTheGrammar(t *testing.T) {
	cases := []struct {
		name, column, direction string
	}{
		{"direction with trailing SQL", "id", "DESC ; DROP TABLE users"},
		{"direction with unsupported clause", "id", "DESC NULLS FIRST"},
		{"column is not an identifier (ASCII space); caller's direction ASC is ignored", "id DESC", "ASC"},
		{"column is not an identifier (NO-BREAK SPACE U+00A0 look-alike)", "id\u00a0desc", ""},
		{"empty column: the direction becomes the column", "", "DESC"},
		{"blank column and direction: ORDER BY silently dropped", " ", " "},
	}
	for _, c := range cases {
		t.Run(c.name, func(t *testing.T) {
			if h5d6IdentOK(c.column) && (c.direction == "" || c.direction == "ASC" || c.direction == "DESC") {
				t.Fatalf("bad test case: %q/%q is inside the grammar", c.column, c.direction)
			}
			q, _, err := NewORM(nil, "users").NewQueryBuilder().OrderBy(c.column, c.direction).Build()
			if err == nil {
				t.Errorf("OrderBy(%q, %q)\n  expected: Build() rejects it (column is not an identifier or direction is not ASC/DESC)\n  actual:   accepted, SQL = %s",
					c.column, c.direction, q)
			}
		})
	}

	// Control: the builder does reject a bad direction when it is the 2nd word.
	if _, _, err := NewORM(nil, "users").NewQueryBuilder().OrderBy("id", "DESC;").Build(); err == nil {
		t.Fatalf("control failed: \"DESC;\" should be rejected")
	}
}

// h5d6IdentOK reports whether s is inside the identifier grammar.
func h5d6IdentOK(s string) bool {
	_, err := SanitizeIdentifier(s)
	return err == nil
}
