package main

import (
	"net/http/httptest"
	"strings"
	"testing"
)

func h1x20get(t *testing.T, src string, interpret bool) (int, string, error) {
	t.Helper()
	module, err := parseSource(src)
	if err != nil {
		return 0, "", err
	}
	_, _, _, router, err := setupRoutes(module, "/tmp/h1-demo.glyph", interpret)
	if err != nil {
		t.Fatalf("setupRoutes: %v", err)
	}
	w := httptest.NewRecorder()
	createHandler(router).ServeHTTP(w, httptest.NewRequest("GET", "/a", nil))
	return w.Code, strings.TrimSpace(w.Body.String()), nil
}

// At the top level of a route body the parser skips every token it cannot
// start a statement with ("Skip unknown tokens"), so a mistyped or unsupported
// statement silently turns into something else instead of a syntax error.
func TestH1_20_RouteBodyDoesNotSilentlyDropTokens(t *testing.T) {
	cases := []struct {
		name, src string
		accept    []string // acceptable outcomes if the program is accepted
	}{
		{
			// arr[0].name = v and obj.list[0] = v are assignments (ast.IndexAssignStatement),
			// and the very same line inside an `if` block is a syntax error.
			name:   "field assignment without $",
			src:    "@ GET /a {\n  $ o = {n: 1}\n  o.n = 2\n  > o\n}",
			accept: []string{`{"n":2}`},
		},
		{
			name:   "stray tokens after a statement",
			src:    "@ GET /a {\n  $ x = 1 ) ] , 5\n  > {x: x}\n}",
			accept: nil, // only a syntax error is acceptable
		},
	}
	for _, tc := range cases {
		for _, interpret := range []bool{false, true} {
			code, body, err := h1x20get(t, tc.src, interpret)
			if err != nil {
				continue // rejected with a syntax error: fine
			}
			ok := false
			for _, a := range tc.accept {
				if code == 200 && body == a {
					ok = true
				}
			}
			if !ok {
				t.Errorf("%s (interpret=%v)\n%s\n  expected: a syntax error%s\n  actual:   accepted, answers %d %s",
					tc.name, interpret, tc.src, func() string {
						if len(tc.accept) > 0 {
							return " or " + strings.Join(tc.accept, " / ")
						}
						return ""
					}(), code, body)
			}
		}
	}
}
