package interpreter_test

// Demo for defect 7 (C08): the in-memory providers (`% db: Database`, and the
// MongoDB mock) hand out and keep *shallow* copies of records. The nested
// objects/arrays of a record are the stored ones, so
//   - a request that merely edits its own copy of a record changes the stored
//     record for every other request, without any provider operation, and
//   - two requests doing so at the same time write one Go map concurrently
//     ("fatal error: concurrent map read and map write" - process exit).
//
// Place in pkg/interpreter/ and run:
//   go test ./pkg/interpreter/ -run TestDemo7 -count=1 -v
//   go test -race ./pkg/interpreter/ -run TestDemo7_Concurrent -count=1 -v   (optional, see notes)

import (
	"os"
	"os/exec"
	"strings"
	"sync"
	"testing"

	"github.com/glyphlang/glyph/pkg/ast"
	"github.com/glyphlang/glyph/pkg/database"
	"github.com/glyphlang/glyph/pkg/interpreter"
	"github.com/glyphlang/glyph/pkg/mongodb"
	"github.com/glyphlang/glyph/pkg/parser"
)

const demo7Src = `
@ GET /seed {
  % db: Database
  $ u = db.users.create({id: 1, name: "ann", profile: {visits: 0}})
  > u
}

# Works on its own copy of the record and never calls db.users.update().
@ GET /preview {
  % db: Database
  $ u = db.users.get(1)
  $ u.profile.visits = 99
  $ u.name = "preview only"
  > u
}

@ GET /show {
  % db: Database
  > db.users.get(1)
}

@ GET /visit {
  % db: Database
  $ u = db.users.get(1)
  $ i = 0
  while i < 3000 {
    $ u.profile.visits = u.profile.visits + 1
    i = i + 1
  }
  > u.profile.visits
}
`

func demo7Load(t *testing.T) (*interpreter.Interpreter, map[string]*ast.Route) {
	t.Helper()
	toks, err := parser.NewLexer(demo7Src).Tokenize()
	if err != nil {
		t.Fatalf("lex: %v", err)
	}
	mod, err := parser.NewParser(toks).Parse()
	if err != nil {
		t.Fatalf("parse: %v", err)
	}
	in := interpreter.NewInterpreter()
	in.SetDatabaseHandler(database.NewMockDatabase()) // what `glyph run` installs
	if err := in.LoadModule(*mod); err != nil {
		t.Fatalf("load: %v", err)
	}
	routes := map[string]*ast.Route{}
	for _, it := range mod.Items {
		if r, ok := it.(*ast.Route); ok {
			routes[r.Path] = r
		}
	}
	return in, routes
}

func demo7Get(t *testing.T, in *interpreter.Interpreter, r *ast.Route) interface{} {
	t.Helper()
	resp, err := in.ExecuteRoute(r, &interpreter.Request{Path: r.Path, Method: "GET"})
	if err != nil {
		t.Fatalf("GET %s: %v", r.Path, err)
	}
	return resp.Body
}

func TestDemo7_EditingACopyChangesTheStoredRecord(t *testing.T) {
	in, routes := demo7Load(t)
	demo7Get(t, in, routes["/seed"])
	demo7Get(t, in, routes["/preview"])

	rec, _ := demo7Get(t, in, routes["/show"]).(map[string]interface{})
	if rec["name"] != "ann" {
		t.Fatalf("top-level field leaked too: %v", rec)
	}
	profile, _ := rec["profile"].(map[string]interface{})
	if profile["visits"] != int64(0) {
		t.Errorf("GET /show after GET /preview: profile.visits = %v, want 0 - no request ever updated the record, "+
			"yet the other request's local edit is in the store", profile["visits"])
	}
}

func TestDemo7_MongoMockSharesNestedDocuments(t *testing.T) {
	coll := mongodb.NewMockHandler().Collection("users")
	if _, err := coll.InsertOne(map[string]interface{}{"name": "ann", "profile": map[string]interface{}{"visits": int64(0)}}); err != nil {
		t.Fatal(err)
	}
	mine, _ := coll.FindOne(map[string]interface{}{"name": "ann"})
	mine["profile"].(map[string]interface{})["visits"] = int64(99) // a request editing its own result

	theirs, _ := coll.FindOne(map[string]interface{}{"name": "ann"})
	if got := theirs["profile"].(map[string]interface{})["visits"]; got != int64(0) {
		t.Errorf("FindOne after another caller edited its own result: profile.visits = %v, want 0", got)
	}
}

func TestDemo7Child(t *testing.T) {
	if os.Getenv("DEMO7_CHILD") == "" {
		t.Skip("helper for TestDemo7_ConcurrentRequestsOnOneRecord")
	}
	in, routes := demo7Load(t)
	demo7Get(t, in, routes["/seed"])
	var wg sync.WaitGroup
	for g := 0; g < 8; g++ {
		wg.Add(1)
		go func() {
			defer wg.Done()
			resp, err := in.ExecuteRoute(routes["/visit"], &interpreter.Request{Path: "/visit", Method: "GET"})
			// each request counts on its own copy: 0 -> 3000
			if err != nil || resp.Body != int64(3000) {
				t.Errorf("GET /visit = %v, %v; want 3000", resp, err)
			}
		}()
	}
	wg.Wait()
}

func TestDemo7_ConcurrentRequestsOnOneRecord(t *testing.T) {
	cmd := exec.Command(os.Args[0], "-test.run=^TestDemo7Child$", "-test.count=1")
	cmd.Env = append(os.Environ(), "DEMO7_CHILD=1", "GOTRACEBACK=single")
	out, err := cmd.CombinedOutput()
	if err != nil {
		lines := strings.Split(string(out), "\n")
		if len(lines) > 10 {
			lines = lines[:10]
		}
		t.Fatalf("8 concurrent GET /visit: wrong answers or a dead process (%v):\n%s", err, strings.Join(lines, "\n"))
	}
}
