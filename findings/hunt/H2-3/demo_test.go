package interpreter_test

// Demo for defect 3 (C08): the generic-type scope of the one shared TypeChecker
// is an unsynchronised map that every generic function call writes. Two
// requests calling a generic function at the same time kill the process with
// "fatal error: concurrent map writes" (not recoverable).
//
// Place in pkg/interpreter/ and run:
//   go test ./pkg/interpreter/ -run TestDemo3 -count=1 -v
//
// The concurrent part runs in a child process (the same test binary) because
// the failure is a fatal runtime error that would otherwise take the whole
// `go test` run down without a verdict.

import (
	"os"
	"os/exec"
	"strings"
	"sync"
	"testing"

	"github.com/glyphlang/glyph/pkg/ast"
	"github.com/glyphlang/glyph/pkg/interpreter"
	"github.com/glyphlang/glyph/pkg/parser"
)

const demo3Src = `
! identity<T>(x: T): T {
  > x
}

@ GET /sum {
  $ i = 0
  $ s = 0
  while i < 3000 {
    s = s + identity(i)
    i = i + 1
  }
  > s
}
`

func demo3Load(t *testing.T) (*interpreter.Interpreter, *ast.Route) {
	t.Helper()
	toks, err := parser.NewLexer(demo3Src).Tokenize()
	if err != nil {
		t.Fatalf("lex: %v", err)
	}
	mod, err := parser.NewParser(toks).Parse()
	if err != nil {
		t.Fatalf("parse: %v", err)
	}
	in := interpreter.NewInterpreter()
	if err := in.LoadModule(*mod); err != nil {
		t.Fatalf("load: %v", err)
	}
	for _, it := range mod.Items {
		if r, ok := it.(*ast.Route); ok {
			return in, r
		}
	}
	t.Fatal("no route")
	return nil, nil
}

// Child: 8 concurrent requests to a route that calls a generic function.
func TestDemo3Child(t *testing.T) {
	if os.Getenv("DEMO3_CHILD") == "" {
		t.Skip("helper for TestDemo3_ConcurrentGenericCallsCrashTheProcess")
	}
	in, route := demo3Load(t)
	var wg sync.WaitGroup
	for g := 0; g < 8; g++ {
		wg.Add(1)
		go func() {
			defer wg.Done()
			resp, err := in.ExecuteRoute(route, &interpreter.Request{Path: "/sum", Method: "GET"})
			if err != nil || resp.Body != int64(4498500) {
				t.Errorf("GET /sum = %v, %v; want 4498500", resp, err)
			}
		}()
	}
	wg.Wait()
}

func TestDemo3_ConcurrentGenericCallsCrashTheProcess(t *testing.T) {
	// Alone the route is fine.
	in, route := demo3Load(t)
	resp, err := in.ExecuteRoute(route, &interpreter.Request{Path: "/sum", Method: "GET"})
	if err != nil || resp.Body != int64(4498500) {
		t.Fatalf("sequential GET /sum = %v, %v; want 4498500", resp, err)
	}

	cmd := exec.Command(os.Args[0], "-test.run=^TestDemo3Child$", "-test.count=1")
	cmd.Env = append(os.Environ(), "DEMO3_CHILD=1")
	out, err := cmd.CombinedOutput()
	if err != nil {
		lines := strings.Split(string(out), "\n")
		if len(lines) > 12 {
			lines = lines[:12]
		}
		t.Fatalf("8 concurrent GET /sum: the process serving them died (%v):\n%s", err, strings.Join(lines, "\n"))
	}
}
