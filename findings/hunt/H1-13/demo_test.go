package main

import (
	"net/http/httptest"
	"strings"
	"testing"
)

// h1x13serve parses src, builds the router exactly as `glyph run` does (compiled
// bytecode on the VM) or as `glyph run --interpret` does, and performs one request.
func h1x13serve(t *testing.T, src string, interpret bool, method, url, body string) (int, string) {
	t.Helper()
	module, err := parseSource(src)
	if err != nil {
		t.Fatalf("parse: %v", err)
	}
	useCompiler, _, _, router, err := setupRoutes(module, "/tmp/h1-demo.glyph", interpret)
	if err != nil {
		t.Fatalf("setupRoutes: %v", err)
	}
	if useCompiler == interpret {
		t.Fatalf("wanted interpret=%v but setupRoutes chose useCompiler=%v (program outside the common fragment)", interpret, useCompiler)
	}
	req := httptest.NewRequest(method, url, nil)
	if body != "" {
		req = httptest.NewRequest(method, url, strings.NewReader(body))
		req.Header.Set("Content-Type", "application/json")
	}
	w := httptest.NewRecorder()
	createHandler(router).ServeHTTP(w, req)
	return w.Code, strings.TrimSpace(w.Body.String())
}

// Array and object patterns.
func TestH1_13_MatchPatterns(t *testing.T) {
	cases := []struct{ name, src, method, url, body string }{
		{"array pattern must match the length", `@ GET /a {
  $ v = [1, 2, 3]
  $ r = match v {
    [a, b] => "two"
    [a, b, c] => "three"
    _ => "other"
  }
  > {r: r}
}`, "GET", "/a", ""},
		{"object pattern with an absent key does not match", `@ GET /a {
  $ v = {kind: "x"}
  $ r = match v {
    {missing} => "has"
    _ => "other"
  }
  > {r: r}
}`, "GET", "/a", ""},
		{"array pattern against a shorter array", `@ GET /a {
  $ v = [1]
  $ r = match v {
    [a, b] => "two"
    _ => "other"
  }
  > {r: r}
}`, "GET", "/a", ""},
	}
	for _, tc := range cases {
		cCode, cBody := h1x13serve(t, tc.src, false, tc.method, tc.url, tc.body)
		iCode, iBody := h1x13serve(t, tc.src, true, tc.method, tc.url, tc.body)
		if cCode != iCode || cBody != iBody {
			t.Errorf("%s: %s %s %s\n%s\n  expected: the same response from both engines\n  compiled (default):        %d %s\n  interpreted (--interpret): %d %s",
				tc.name, tc.method, tc.url, tc.body, tc.src, cCode, cBody, iCode, iBody)
		}
	}
}
