package main

// Belongs in cmd/glyph (package main).
//
// C07: "When a route declares ... a return type, ... the client never receives
// data violating the declaration: ... (a 5xx for a bad return value) ... both
// execution modes."

import (
	"net/http"
	"net/http/httptest"
	"path/filepath"
	"strings"
	"testing"
)

func h3d3Serve(t *testing.T, src string, interpret bool, req *http.Request) *httptest.ResponseRecorder {
	t.Helper()
	module, err := parseSource(src)
	if err != nil {
		t.Fatalf("parse: %v", err)
	}
	useCompiler, _, _, router, err := setupRoutes(module, filepath.Join(t.TempDir(), "main.glyph"), interpret)
	if err != nil {
		t.Fatalf("setupRoutes: %v", err)
	}
	if useCompiler == interpret {
		t.Fatalf("wanted interpret=%v, got useCompiler=%v", interpret, useCompiler)
	}
	mux := http.NewServeMux()
	mux.HandleFunc("/", createHandler(router))
	rec := httptest.NewRecorder()
	mux.ServeHTTP(rec, req)
	return rec
}

func TestH3CompiledRouteIgnoresDeclaredReturnType(t *testing.T) {
	const src = `
: User {
  id: int!
  name: str!
}

@ GET /user -> User {
  > {id: "not-an-int"}
}
`
	for _, mode := range []struct {
		name      string
		interpret bool
	}{{"interpreted", true}, {"compiled", false}} {
		rec := h3d3Serve(t, src, mode.interpret, httptest.NewRequest("GET", "/user", nil))
		if rec.Code < 500 {
			t.Errorf("%s mode: route declares `-> User` (id: int!, name: str!) but the client received %d %s; want a 5xx",
				mode.name, rec.Code, strings.TrimSpace(rec.Body.String()))
		}
	}
}
