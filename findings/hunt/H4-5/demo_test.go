package websocket

import (
	"net/http"
	"net/http/httptest"
	"strings"
	"testing"
	"time"

	"github.com/gorilla/websocket"
)

// Demo: when the hub is at MaxConnectionsPerHub the register case closes the
// socket and `continue`s, but HandleWebSocket has no way to learn about the
// rejection: it still does connWg.Add(2) and starts both pumps. ReadPump exits
// at once, its unregister is ignored (the connection was never registered), so
// conn.send is never closed and WritePump parks forever on `<-c.send` (with
// heartbeats disabled the ticker branch just `continue`s; with the default
// config it is only released by the next failing ping, up to 30s later).
// Every rejected client therefore leaks a goroutine + Connection, and
// Server.Shutdown() blocks in connWg.Wait().
func TestDemoRejectedConnectionHangsShutdown(t *testing.T) {
	cfg := DefaultConfig()
	cfg.MaxConnectionsPerHub = 1
	cfg.EnableHeartbeat = false
	server := NewServer(cfg)
	hub := server.GetHub()

	ts := httptest.NewServer(http.HandlerFunc(server.HandleWebSocket))
	defer ts.Close()
	wsURL := "ws" + strings.TrimPrefix(ts.URL, "http")

	c1, _, err := websocket.DefaultDialer.Dial(wsURL, nil)
	if err != nil {
		t.Fatal(err)
	}
	if !pollCondition(func() bool { return hub.GetConnectionCount() == 1 }, 2*time.Second) {
		t.Fatal("client 1 never registered")
	}

	// one client over the limit: rejected by the hub
	c2, _, err := websocket.DefaultDialer.Dial(wsURL, nil)
	if err != nil {
		t.Fatal(err)
	}
	c2.SetReadDeadline(time.Now().Add(2 * time.Second))
	if _, _, err := c2.ReadMessage(); err == nil {
		t.Fatal("expected the over-limit client to be dropped")
	}
	c2.Close()
	if !pollCondition(func() bool { return hub.GetMetrics().GetRejectedConnections() == 1 }, 2*time.Second) {
		t.Fatal("rejection not recorded")
	}
	if n := hub.GetConnectionCount(); n != 1 {
		t.Fatalf("limit exceeded: %d", n)
	}

	c1.Close()
	if !pollCondition(func() bool { return hub.GetConnectionCount() == 0 }, 2*time.Second) {
		t.Fatal("client 1 never unregistered")
	}

	done := make(chan struct{})
	go func() { server.Shutdown(); close(done) }()
	select {
	case <-done:
	case <-time.After(5 * time.Second):
		t.Fatal("Server.Shutdown() still blocked after 5s with zero registered connections: the WritePump of the rejected connection never exits")
	}
}
