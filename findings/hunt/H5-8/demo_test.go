package database

// Belongs in: pkg/database  (package database)
//
// C14: work done inside a transaction callback must be rolled back entirely when
// the callback returns an error.
//
// ORM.Transaction hands the callback "a transaction-aware context". Since commit
// cee5135 PostgresDB.Query/QueryRow/Exec honour it, but PostgresDB.Prepare does
// not: a statement prepared with the transaction context is prepared on the POOL
// and every execution of it runs outside the transaction (auto-commit), so it
// survives the rollback.
//
// Engine: real SQLite file database behind *PostgresDB (see H5-7 notes; no
// PostgreSQL server in the sandbox, code under test is driver independent).

import (
	"context"
	"database/sql"
	"errors"
	"path/filepath"
	"testing"
)

func TestH5_PreparedStatementInsideTransactionEscapesRollback(t *testing.T) {
	path := filepath.Join(t.TempDir(), "h5.db")
	sqlDB, err := sql.Open("sqlite", path+"?_pragma=busy_timeout(2000)&_pragma=journal_mode(WAL)")
	if err != nil {
		t.Fatal(err)
	}
	defer sqlDB.Close()
	sqlDB.SetMaxOpenConns(4)
	pg := &PostgresDB{config: &Config{Driver: "postgres"}, db: sqlDB}
	ctx := context.Background()
	if _, err := pg.Exec(ctx, `CREATE TABLE items (id INTEGER PRIMARY KEY, name TEXT)`); err != nil {
		t.Fatal(err)
	}
	orm := NewORM(pg, "items")

	boom := errors.New("validation failed after insert")
	err = orm.Transaction(ctx, func(txCtx context.Context) error {
		// typical loop-insert pattern: prepare once, execute many times
		stmt, err := pg.Prepare(txCtx, `INSERT INTO items (id, name) VALUES ($1, $2)`)
		if err != nil {
			return err
		}
		defer stmt.Close()
		for i, name := range []string{"a", "b", "c"} {
			if _, err := stmt.ExecContext(txCtx, i+1, name); err != nil {
				return err
			}
		}
		return boom // -> rollback
	})
	if !errors.Is(err, boom) {
		t.Fatalf("precondition: the transaction returns the callback's error, got %v", err)
	}

	n, err := orm.Count(ctx)
	if err != nil {
		t.Fatal(err)
	}
	if n != 0 {
		t.Fatalf("the transaction callback returned an error, so its inserts must be rolled back\n"+
			"  expected: 0 rows in items\n"+
			"  actual:   %d rows (statements prepared via db.Prepare(txCtx, ...) ran outside the transaction)", n)
	}
}
