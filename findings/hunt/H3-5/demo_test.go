package main

// Belongs in cmd/glyph (package main).
//
// C07: "Conforming requests are never rejected ... both execution modes."

import (
	"net/http"
	"net/http/httptest"
	"path/filepath"
	"strings"
	"testing"
)

func h3d5Serve(t *testing.T, src string, interpret bool, req *http.Request) *httptest.ResponseRecorder {
	t.Helper()
	module, err := parseSource(src)
	if err != nil {
		t.Fatalf("parse: %v", err)
	}
	useCompiler, _, _, router, err := setupRoutes(module, filepath.Join(t.TempDir(), "main.glyph"), interpret)
	if err != nil {
		t.Fatalf("setupRoutes: %v", err)
	}
	if useCompiler == interpret {
		t.Fatalf("wanted interpret=%v, got useCompiler=%v", interpret, useCompiler)
	}
	mux := http.NewServeMux()
	mux.HandleFunc("/", createHandler(router))
	rec := httptest.NewRecorder()
	mux.ServeHTTP(rec, req)
	return rec
}

func TestH3CompiledDeleteRouteRejectsConformingBody(t *testing.T) {
	const src = `
: Reason {
  reason: str!
}

@ DELETE /items/:id {
  < input: Reason
  > {deleted: id, reason: input.reason}
}
`
	const want = `{"deleted":"7","reason":"obsolete"}`
	for _, mode := range []struct {
		name      string
		interpret bool
	}{{"interpreted", true}, {"compiled", false}} {
		req := httptest.NewRequest("DELETE", "/items/7", strings.NewReader(`{"reason":"obsolete"}`))
		req.Header.Set("Content-Type", "application/json")
		rec := h3d5Serve(t, src, mode.interpret, req)
		got := strings.TrimSpace(rec.Body.String())
		if rec.Code != 200 || got != want {
			t.Errorf("%s mode: DELETE with the conforming body {\"reason\":\"obsolete\"}: got %d %s, want 200 %s",
				mode.name, rec.Code, got, want)
		}
	}
}
