package main

// Belongs in: cmd/glyph  (package main)
//
// C19: "the server keeps answering ... at every point in the sequence at which
// requests are made". startServer() shuts the old server down BEFORE the new
// one listens (stop-then-start). With a live-reload browser tab connected (the
// normal way `glyph dev` is used) http.Server.Shutdown waits its full 2 s
// timeout for the never-ending /__livereload SSE handler, so for ~2.1 s every
// request is refused - during a perfectly VALID reload.

import (
	"bufio"
	"fmt"
	"net"
	"net/http"
	"os"
	"path/filepath"
	"testing"
	"time"
)

func h5d4FreePort(t *testing.T) int {
	t.Helper()
	l, err := net.Listen("tcp", "127.0.0.1:0")
	if err != nil {
		t.Fatal(err)
	}
	defer l.Close()
	return l.Addr().(*net.TCPAddr).Port
}

func TestH5_ValidReloadRefusesRequestsForSeconds(t *testing.T) {
	dir := t.TempDir()
	file := filepath.Join(dir, "main.glyph")
	if err := os.WriteFile(file, []byte("@ GET /v {\n  > {version: 1}\n}\n"), 0600); err != nil {
		t.Fatal(err)
	}
	port := h5d4FreePort(t)
	m := &hotReloadManager{filePath: file, port: port, liveReloadConns: make(map[*liveReloadConn]bool)}
	if err := m.startServer(); err != nil {
		t.Fatalf("initial start: %v", err)
	}
	defer func() { m.mu.Lock(); m.server.Close(); m.mu.Unlock() }()
	base := fmt.Sprintf("http://127.0.0.1:%d", port)

	// A browser tab that loaded /__livereload.js keeps this SSE stream open.
	sse, err := http.Get(base + "/__livereload")
	if err != nil {
		t.Fatal(err)
	}
	defer sse.Body.Close()
	if line, _ := bufio.NewReader(sse.Body).ReadString('\n'); line != "event: connected\n" {
		t.Fatalf("precondition: SSE stream connected, got %q", line)
	}

	// A VALID edit.
	if err := os.WriteFile(file, []byte("@ GET /v {\n  > {version: 2}\n}\n"), 0600); err != nil {
		t.Fatal(err)
	}
	done := make(chan struct{})
	go func() { m.reload(); close(done) }()

	client := &http.Client{Transport: &http.Transport{DisableKeepAlives: true}, Timeout: time.Second}
	var ok, refused int
	var firstFail, lastFail time.Time
	var lastErr error
	for running := true; running; {
		select {
		case <-done:
			running = false
		default:
		}
		resp, err := client.Get(base + "/v")
		if err != nil {
			if refused == 0 {
				firstFail = time.Now()
			}
			lastFail, lastErr = time.Now(), err
			refused++
		} else {
			resp.Body.Close()
			ok++
		}
		time.Sleep(10 * time.Millisecond)
	}

	outage := lastFail.Sub(firstFail)
	t.Logf("requests during the reload: %d answered, %d failed; outage %v; last error: %v", ok, refused, outage, lastErr)
	// 250ms is generous: it tolerates the two hard-coded 100ms sleeps.
	if outage > 250*time.Millisecond {
		t.Fatalf("expected: the dev server keeps answering (old or new version) while a valid edit is reloaded\n"+
			"actual:   %d consecutive requests failed over %v (%v)", refused, outage, lastErr)
	}
}
