package compiler

import (
	"encoding/json"
	"testing"

	"github.com/glyphlang/glyph/pkg/ast"
	"github.com/glyphlang/glyph/pkg/vm"
)

// Two different string concatenations get the same CSE key, so the second is
// replaced by the variable holding the first.
func TestH1_6_CSEKeyCollisionOnStringLiterals(t *testing.T) {
	s := func(v string) ast.Expr { return &ast.LiteralExpr{Value: ast.StringLiteral{Value: v}} }
	add := func(l, r ast.Expr) ast.Expr { return &ast.BinaryOpExpr{Op: ast.Add, Left: l, Right: r} }
	body := []ast.Statement{
		&ast.AssignStatement{Target: "p", Value: add(s("a str:b"), s("c"))}, // "a str:bc"
		&ast.AssignStatement{Target: "q", Value: add(s("a"), s("b str:c"))}, // "ab str:c"
		&ast.ReturnStatement{Value: &ast.VariableExpr{Name: "q"}},
	}
	run := func(level OptimizationLevel) string {
		bc, err := NewCompilerWithOptLevel(level).CompileRoute(&ast.Route{Path: "/t", Body: body})
		if err != nil {
			t.Fatalf("level %d: %v", level, err)
		}
		res, err := vm.NewVM().Execute(bc)
		if err != nil {
			t.Fatalf("level %d: %v", level, err)
		}
		out, _ := json.Marshal(res)
		return string(out)
	}
	want, got := run(OptNone), run(OptAggressive)
	if got != want {
		t.Errorf("$ p = \"a str:b\" + \"c\"; $ q = \"a\" + \"b str:c\"; > q\n  expected (opt level 0): %s\n  actual (OptAggressive): %s  (q was replaced by p)", want, got)
	}
}
