package formatter

// Demo for C18: `glyph expand` followed by `glyph compact` does not give the
// program back when it contains an identifier that is spelled like an expanded
// keyword: at the start of a line (a record field `type: str!`, an object key
// `type: "x"` on its own line, a re-assignment `queue = ...`) or, for
// let/return/use/middleware/expects/validate, anywhere inside a block.
// CompactSource decides "this is the keyword" from the position alone and
// rewrites the identifier into the sigil.
//
// Belongs in: pkg/formatter (package formatter).

import (
	"fmt"
	"reflect"
	"strings"
	"testing"

	"github.com/glyphlang/glyph/pkg/ast"
	"github.com/glyphlang/glyph/pkg/parser"
)

func TestDemoC18_ExpandThenCompactKeepsKeywordSpelledIdentifiers(t *testing.T) {
	cases := []struct{ name, src string }{
		{"type-def field named type (examples/intent-tests/04-job-queue.glyph:11)",
			": Job {\n  id: int!\n  type: str!\n}\n"},
		{"object key on its own line (examples/feature-showcase/main.glyph:756)",
			"@ GET /m {\n  > {\n    type: \"system\",\n    n: 1\n  }\n}\n"},
		{"re-assignment of a variable named queue",
			"@ GET /m {\n  $ queue = 1\n  queue = 2\n  > {q: queue}\n}\n"},
		{"object key named validate in the middle of a line (inside a block)",
			"@ POST /m {\n  > {validate: true, n: 1}\n}\n"},
		{"field access .use in the middle of a line (inside a block)",
			"@ POST /m {\n  $ u = input.use\n  > {u: u}\n}\n"},
	}
	for _, c := range cases {
		want, err := treeD2(c.src, false)
		if err != nil {
			t.Fatalf("%s: original must parse: %v", c.name, err)
		}
		back := CompactSource(ExpandSource(c.src))
		got, err := treeD2(back, false)
		if err != nil {
			t.Errorf("%s: compact(expand(src)) does not parse: %s\n--- original:\n%s--- after round trip:\n%s",
				c.name, strings.Join(strings.Fields(err.Error()), " "), c.src, back)
			continue
		}
		if got != want {
			t.Errorf("%s: compact(expand(src)) has a different tree\n--- original:\n%s--- after round trip:\n%s", c.name, c.src, back)
		}
	}
}

// ---- helpers (position-stripped AST dump; compact / expanded parse) ----

var posTypeD2 = reflect.TypeOf(ast.Pos{})

func dumpD2(v reflect.Value, sb *strings.Builder) {
	if !v.IsValid() {
		sb.WriteString("<nil>")
		return
	}
	if v.Type() == posTypeD2 {
		return
	}
	switch v.Kind() {
	case reflect.Ptr, reflect.Interface:
		if v.IsNil() {
			sb.WriteString("nil")
			return
		}
		dumpD2(v.Elem(), sb)
	case reflect.Struct:
		sb.WriteString(v.Type().Name() + "{")
		for i := 0; i < v.NumField(); i++ {
			f := v.Type().Field(i)
			if f.Type == posTypeD2 {
				continue
			}
			sb.WriteString(f.Name + ":")
			dumpD2(v.Field(i), sb)
			sb.WriteString(" ")
		}
		sb.WriteString("}")
	case reflect.Slice, reflect.Array:
		sb.WriteString("[")
		for i := 0; i < v.Len(); i++ {
			dumpD2(v.Index(i), sb)
			sb.WriteString(",")
		}
		sb.WriteString("]")
	case reflect.String:
		sb.WriteString(fmt.Sprintf("%q", v.String()))
	default:
		sb.WriteString(fmt.Sprintf("%v", v.Interface()))
	}
}

// treeD2 parses src with the compact lexer (expanded=false, what `glyph run x.glyph`
// does) or the expanded lexer (expanded=true, what is done for x.glyphx) and
// returns the syntax tree with all source positions removed.
func treeD2(src string, expanded bool) (string, error) {
	var toks []parser.Token
	var err error
	if expanded {
		toks, err = parser.NewExpandedLexer(src).Tokenize()
	} else {
		toks, err = parser.NewLexer(src).Tokenize()
	}
	if err != nil {
		return "", fmt.Errorf("lexer error: %w", err)
	}
	m, err := parser.NewParser(toks).Parse()
	if err != nil {
		return "", fmt.Errorf("parse error: %w", err)
	}
	var sb strings.Builder
	dumpD2(reflect.ValueOf(m), &sb)
	return sb.String(), nil
}
