package main

// Belongs in cmd/glyph (package main).
//
// C11: "On a route declaring `+ ratelimit(N/window)` - whatever the window
// unit - no client is admitted more than N x (1 + T/window) requests in any
// interval of length T (a bucket of N refilled at N per window) ... A client
// staying within the rate is never rejected."

import (
	"net/http"
	"net/http/httptest"
	"path/filepath"
	"testing"
	"time"
)

func h3d1Handler(t *testing.T, src string) http.Handler {
	t.Helper()
	module, err := parseSource(src)
	if err != nil {
		t.Fatalf("parse: %v", err)
	}
	_, _, _, router, err := setupRoutes(module, filepath.Join(t.TempDir(), "main.glyph"))
	if err != nil {
		t.Fatalf("setupRoutes: %v", err)
	}
	mux := http.NewServeMux()
	mux.HandleFunc("/", createHandler(router))
	return mux
}

func h3d1Get(h http.Handler) int {
	req := httptest.NewRequest("GET", "/limited", nil)
	req.RemoteAddr = "203.0.113.9:40000" // one client
	rec := httptest.NewRecorder()
	h.ServeHTTP(rec, req)
	return rec.Code
}

// A per-second limit is given a bucket of 60*N instead of N.
func TestH3RateLimitPerSecondBurst(t *testing.T) {
	h := h3d1Handler(t, "@ GET /limited {\n  + ratelimit(2/sec)\n  > {ok: true}\n}\n")

	start := time.Now()
	admitted := 0
	for i := 0; i < 40; i++ {
		if h3d1Get(h) == 200 {
			admitted++
		}
	}
	elapsed := time.Since(start)

	// N x (1 + T/window) with N=2, window=1s.
	bound := int(2 * (1 + elapsed.Seconds()))
	if admitted > bound {
		t.Fatalf("ratelimit(2/sec): one client was admitted %d times in %v; the declared limit allows at most %d (bucket of 2 refilled at 2/s)",
			admitted, elapsed, bound)
	}
}

// An hourly (or daily) limit is given a bucket of ceil(N/60) (ceil(N/1440)),
// so a client far below its budget is rejected.
func TestH3RateLimitPerHourRejectsClientWithinBudget(t *testing.T) {
	for _, decl := range []string{"100/hour", "1000/day"} {
		h := h3d1Handler(t, "@ GET /limited {\n  + ratelimit("+decl+")\n  > {ok: true}\n}\n")
		for i := 1; i <= 5; i++ {
			if code := h3d1Get(h); code != 200 {
				t.Errorf("ratelimit(%s): request %d of a client that has used %d of its budget got %d, want 200",
					decl, i, i-1, code)
				break
			}
		}
	}
}

// A zero budget disables limiting instead of admitting nothing.
func TestH3RateLimitZeroAdmitsEverything(t *testing.T) {
	h := h3d1Handler(t, "@ GET /limited {\n  + ratelimit(0/min)\n  > {ok: true}\n}\n")
	admitted := 0
	for i := 0; i < 20; i++ {
		if h3d1Get(h) == 200 {
			admitted++
		}
	}
	if admitted != 0 {
		t.Fatalf("ratelimit(0/min): admitted %d of 20 requests, the declared bound N x (1 + T/window) is 0", admitted)
	}
}
