package main

// Belongs in cmd/glyph (package main).
//
// C07: "Conforming requests are never rejected" - for every type definition
// (optionals, unions, ...), both execution modes.

import (
	"net/http"
	"net/http/httptest"
	"path/filepath"
	"strings"
	"testing"
)

func h3d6Serve(t *testing.T, src string, interpret bool, req *http.Request) *httptest.ResponseRecorder {
	t.Helper()
	module, err := parseSource(src)
	if err != nil {
		t.Fatalf("parse: %v", err)
	}
	useCompiler, _, _, router, err := setupRoutes(module, filepath.Join(t.TempDir(), "main.glyph"), interpret)
	if err != nil {
		t.Fatalf("setupRoutes: %v", err)
	}
	if useCompiler == interpret {
		t.Fatalf("wanted interpret=%v, got useCompiler=%v", interpret, useCompiler)
	}
	mux := http.NewServeMux()
	mux.HandleFunc("/", createHandler(router))
	rec := httptest.NewRecorder()
	mux.ServeHTTP(rec, req)
	return rec
}

func TestH3JSONIntegerRejectedForOptionalAndUnionInt(t *testing.T) {
	const src = `
: Patch {
  plain: int
  age: int?
  ref: int | str
}

@ POST /patch {
  < input: Patch
  > {ok: true}
}
`
	for _, mode := range []struct {
		name      string
		interpret bool
	}{{"interpreted", true}, {"compiled", false}} {
		for _, body := range []string{
			`{"plain": 5}`, // control: a bare int field accepts a JSON integer
			`{"age": 5}`,
			`{"ref": 5}`,
		} {
			req := httptest.NewRequest("POST", "/patch", strings.NewReader(body))
			req.Header.Set("Content-Type", "application/json")
			rec := h3d6Serve(t, src, mode.interpret, req)
			if rec.Code != 200 {
				t.Errorf("%s mode: body %s conforms to Patch but got %d %s, want 200",
					mode.name, body, rec.Code, strings.TrimSpace(rec.Body.String()))
			}
		}
	}
}
