package main

// Belongs in cmd/glyph (package main).
//
// C07: "Conforming requests are never rejected, and defaults are applied
// exactly to absent fields ... both execution modes."

import (
	"net/http"
	"net/http/httptest"
	"path/filepath"
	"strings"
	"testing"
)

func h3d4Serve(t *testing.T, src string, interpret bool, req *http.Request) *httptest.ResponseRecorder {
	t.Helper()
	module, err := parseSource(src)
	if err != nil {
		t.Fatalf("parse: %v", err)
	}
	useCompiler, _, _, router, err := setupRoutes(module, filepath.Join(t.TempDir(), "main.glyph"), interpret)
	if err != nil {
		t.Fatalf("setupRoutes: %v", err)
	}
	if useCompiler == interpret {
		t.Fatalf("wanted interpret=%v, got useCompiler=%v", interpret, useCompiler)
	}
	mux := http.NewServeMux()
	mux.HandleFunc("/", createHandler(router))
	rec := httptest.NewRecorder()
	mux.ServeHTTP(rec, req)
	return rec
}

func TestH3CompiledRouteDoesNotApplyInputDefaults(t *testing.T) {
	const src = `
: NewUser {
  name: str!
  role: str = "member"
}

@ POST /users {
  < input: NewUser
  > {name: input.name, role: input.role}
}
`
	const want = `{"name":"ada","role":"member"}`
	for _, mode := range []struct {
		name      string
		interpret bool
	}{{"interpreted", true}, {"compiled", false}} {
		req := httptest.NewRequest("POST", "/users", strings.NewReader(`{"name":"ada"}`))
		req.Header.Set("Content-Type", "application/json")
		rec := h3d4Serve(t, src, mode.interpret, req)
		got := strings.TrimSpace(rec.Body.String())
		if rec.Code != 200 || got != want {
			t.Errorf("%s mode: POST {\"name\":\"ada\"} to a route whose input type has `role: str = \"member\"`: got %d %s, want 200 %s",
				mode.name, rec.Code, got, want)
		}
	}
}
