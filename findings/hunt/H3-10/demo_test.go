package main

// Belongs in cmd/glyph (package main).
//
// C07: "defaults are applied exactly to absent fields" - for every type
// definition (nesting, lists, ...).

import (
	"net/http"
	"net/http/httptest"
	"path/filepath"
	"strings"
	"testing"
)

func h3d10Serve(t *testing.T, src string, interpret bool, req *http.Request) *httptest.ResponseRecorder {
	t.Helper()
	module, err := parseSource(src)
	if err != nil {
		t.Fatalf("parse: %v", err)
	}
	useCompiler, _, _, router, err := setupRoutes(module, filepath.Join(t.TempDir(), "main.glyph"), interpret)
	if err != nil {
		t.Fatalf("setupRoutes: %v", err)
	}
	if useCompiler == interpret {
		t.Fatalf("wanted interpret=%v, got useCompiler=%v", interpret, useCompiler)
	}
	mux := http.NewServeMux()
	mux.HandleFunc("/", createHandler(router))
	rec := httptest.NewRecorder()
	mux.ServeHTTP(rec, req)
	return rec
}

// Interpreted mode only: compiled mode applies no defaults at all (H3-4).
func TestH3DefaultsOfNestedTypesAreNotApplied(t *testing.T) {
	const src = `
: Addr {
  city: str!
  country: str = "US"
}

: Order {
  note: str = "none"
  ship: Addr!
  stops: [Addr]
}

@ POST /orders {
  < input: Order
  > {note: input.note, country: input.ship.country, stop: input.stops[0].country}
}
`
	req := httptest.NewRequest("POST", "/orders",
		strings.NewReader(`{"ship": {"city": "Oslo"}, "stops": [{"city": "Rome"}]}`))
	req.Header.Set("Content-Type", "application/json")
	rec := h3d10Serve(t, src, true, req)

	const want = `{"country":"US","note":"none","stop":"US"}`
	if got := strings.TrimSpace(rec.Body.String()); rec.Code != 200 || got != want {
		t.Fatalf("interpreted mode: Addr declares `country: str = \"US\"` and the request leaves it out of ship and of stops[0]:\n got  %d %s\n want 200 %s",
			rec.Code, got, want)
	}
}
