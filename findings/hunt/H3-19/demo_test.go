package main

// Belongs in cmd/glyph (package main).
//
// C05: "... with every path parameter bound to the corresponding request
// segment ...; this holds in both execution modes."

import (
	"net/http"
	"net/http/httptest"
	"path/filepath"
	"strings"
	"testing"
)

func h3d19Serve(t *testing.T, src string, interpret bool, req *http.Request) *httptest.ResponseRecorder {
	t.Helper()
	module, err := parseSource(src)
	if err != nil {
		t.Fatalf("parse: %v", err)
	}
	useCompiler, _, _, router, err := setupRoutes(module, filepath.Join(t.TempDir(), "main.glyph"), interpret)
	if err != nil {
		t.Fatalf("setupRoutes: %v", err)
	}
	if useCompiler == interpret {
		t.Fatalf("wanted interpret=%v, got useCompiler=%v", interpret, useCompiler)
	}
	mux := http.NewServeMux()
	mux.HandleFunc("/", createHandler(router))
	rec := httptest.NewRecorder()
	mux.ServeHTTP(rec, req)
	return rec
}

func TestH3PathParameterNamedLikeABuiltinBindingIsOverwritten(t *testing.T) {
	for _, name := range []string{"id" /* control */, "query", "input", "headers"} {
		src := "@ GET /search/:" + name + " {\n  > {value: " + name + "}\n}\n"
		for _, mode := range []struct {
			name      string
			interpret bool
		}{{"interpreted", true}, {"compiled", false}} {
			rec := h3d19Serve(t, src, mode.interpret, httptest.NewRequest("GET", "/search/glyph", nil))
			const want = `{"value":"glyph"}`
			if got := strings.TrimSpace(rec.Body.String()); rec.Code != 200 || got != want {
				t.Errorf("%s mode: `@ GET /search/:%s` and GET /search/glyph: got %d %s, want 200 %s",
					mode.name, name, rec.Code, got, want)
			}
		}
	}
}
