package interpreter_test

// Demo for defect 5 (C04): the interpreter bounds each single `while` loop
// (1e6 iterations) and the nesting depth (500), but not the total work of an
// evaluation. Loops inside loops, or a recursion that fans out, stay below both
// limits and run for days: the request never ends, pins a CPU, and nothing
// (client disconnect, WriteTimeout) ever stops the goroutine. The compiled
// engine stops the same program after DefaultMaxSteps (about 3 s).
//
// Place in pkg/interpreter/ and run:
//   go test ./pkg/interpreter/ -run TestDemo5 -count=1 -v        (takes ~10 s)

import (
	"testing"
	"time"

	"github.com/glyphlang/glyph/pkg/ast"
	"github.com/glyphlang/glyph/pkg/compiler"
	"github.com/glyphlang/glyph/pkg/interpreter"
	"github.com/glyphlang/glyph/pkg/parser"
	"github.com/glyphlang/glyph/pkg/vm"
)

const demo5Src = `
! fan(n: int): int {
  if n == 0 {
    > 1
  }
  > fan(n - 1) + fan(n - 1)
}

@ GET /nested {
  $ total = 0
  $ i = 0
  while i < 999999 {
    $ j = 0
    while j < 999999 {
      j = j + 1
    }
    total = total + j
    i = i + 1
  }
  > total
}

@ GET /fan {
  > fan(64)
}
`

// An evaluation that is going to be cut off should be cut off within seconds:
// one runaway loop takes the interpreter < 1 s to refuse, the VM refuses any
// program after about 3 s.
const demo5Deadline = 10 * time.Second

func demo5Module(t *testing.T) (*interpreter.Interpreter, map[string]*ast.Route) {
	t.Helper()
	toks, err := parser.NewLexer(demo5Src).Tokenize()
	if err != nil {
		t.Fatalf("lex: %v", err)
	}
	mod, err := parser.NewParser(toks).Parse()
	if err != nil {
		t.Fatalf("parse: %v", err)
	}
	in := interpreter.NewInterpreter()
	if err := in.LoadModule(*mod); err != nil {
		t.Fatalf("load: %v", err)
	}
	routes := map[string]*ast.Route{}
	for _, it := range mod.Items {
		if r, ok := it.(*ast.Route); ok {
			routes[r.Path] = r
		}
	}
	return in, routes
}

func demo5MustEnd(t *testing.T, in *interpreter.Interpreter, r *ast.Route) {
	t.Helper()
	done := make(chan error, 1)
	go func() {
		_, err := in.ExecuteRoute(r, &interpreter.Request{Path: r.Path, Method: "GET"})
		done <- err
	}()
	select {
	case err := <-done:
		t.Logf("GET %s ended: %v", r.Path, err) // a value or a GlyphLang-level error: both fine
	case <-time.After(demo5Deadline):
		t.Errorf("GET %s is still being evaluated after %v: no limit of the interpreter applies to it (the goroutine keeps running)", r.Path, demo5Deadline)
	}
}

func TestDemo5_NestedLoopsNeverEnd(t *testing.T) {
	t.Parallel()
	in, routes := demo5Module(t)

	// The compiled engine bounds the very same route.
	bc, err := compiler.NewCompilerWithOptLevel(compiler.OptBasic).CompileRoute(routes["/nested"])
	if err != nil {
		t.Fatalf("compile: %v", err)
	}
	start := time.Now()
	_, vmErr := vm.NewVM().Execute(bc)
	t.Logf("compiled engine: %v after %v", vmErr, time.Since(start).Round(time.Millisecond))
	if vmErr == nil {
		t.Fatalf("compiled engine: expected the step limit to stop the route")
	}

	demo5MustEnd(t, in, routes["/nested"])
}

func TestDemo5_FanOutRecursionNeverEnds(t *testing.T) {
	t.Parallel()
	in, routes := demo5Module(t)
	demo5MustEnd(t, in, routes["/fan"])
}
