package interpreter_test

// Demo for defect 6 (C04): GlyphLang values can be cyclic (`$ o.me = o`), and
// several places walk a value recursively in Go without a cycle/depth guard.
// The walk overflows the goroutine stack (1 GB), which is a fatal runtime error:
// the whole server process exits, no recover() applies.
//
// Place in pkg/interpreter/ and run:
//   go test ./pkg/interpreter/ -run TestDemo6 -count=1 -v
//
// Each route is evaluated in a child process (the same test binary).

import (
	"os"
	"os/exec"
	"runtime/debug"
	"strings"
	"testing"

	"github.com/glyphlang/glyph/pkg/ast"
	"github.com/glyphlang/glyph/pkg/interpreter"
	"github.com/glyphlang/glyph/pkg/parser"
)

const demo6Src = `
: Node {
  name: str!
  next: Node
}

@ GET /tostring {
  $ parent = {name: "p"}
  $ child = {name: "c", parent: parent}
  $ parent.child = child
  > toString(parent)
}

@ GET /join {
  $ o = {name: "o"}
  $ o.me = o
  > join([o], ",")
}

@ GET /typed -> Node {
  $ n = {name: "ring"}
  $ n.next = n
  > n
}
`

func TestDemo6Child(t *testing.T) {
	path := os.Getenv("DEMO6_CHILD")
	if path == "" {
		t.Skip("helper for TestDemo6_*")
	}
	// The recursion is infinite; the default 1 GB stack limit only decides how
	// long it takes to hit it (tens of seconds). 64 MB keeps the demo quick.
	debug.SetMaxStack(64 << 20)
	toks, err := parser.NewLexer(demo6Src).Tokenize()
	if err != nil {
		t.Fatalf("lex: %v", err)
	}
	mod, err := parser.NewParser(toks).Parse()
	if err != nil {
		t.Fatalf("parse: %v", err)
	}
	in := interpreter.NewInterpreter()
	if err := in.LoadModule(*mod); err != nil {
		t.Fatalf("load: %v", err)
	}
	for _, it := range mod.Items {
		if r, ok := it.(*ast.Route); ok && r.Path == path {
			// Any outcome is acceptable here - a string, or a GlyphLang error
			// such as "cannot convert a cyclic value" - as long as there is one.
			resp, err := in.ExecuteRoute(r, &interpreter.Request{Path: path, Method: "GET"})
			t.Logf("GET %s ended: %v %v", path, resp, err)
			return
		}
	}
	t.Fatalf("no route %s", path)
}

func demo6Run(t *testing.T, path string) {
	cmd := exec.Command(os.Args[0], "-test.run=^TestDemo6Child$", "-test.count=1")
	cmd.Env = append(os.Environ(), "DEMO6_CHILD="+path, "GOTRACEBACK=single")
	out, err := cmd.CombinedOutput()
	if err != nil {
		lines := strings.Split(string(out), "\n")
		if len(lines) > 4 {
			lines = lines[:4]
		}
		t.Errorf("GET %s: the process evaluating the route died (%v):\n%s", path, err, strings.Join(lines, "\n"))
	}
}

func TestDemo6_ToStringOfCyclicValue(t *testing.T) { demo6Run(t, "/tostring") }

func TestDemo6_JoinOfCyclicValue(t *testing.T) { demo6Run(t, "/join") }

func TestDemo6_ReturnTypeCheckOfCyclicValue(t *testing.T) { demo6Run(t, "/typed") }
