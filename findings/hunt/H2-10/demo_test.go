package interpreter_test

// Demo for defect 10 (C04): two ordinary programs make the evaluator panic in
// Go instead of returning a GlyphLang-level error:
//   - randomInt(min, max) when max-min+1 overflows int64 (rand.Int63n panics),
//   - assigning a field of a "not found" result of a provider that returns a
//     typed nil map (MongoDB findOne): assignment to entry in nil map.
// The panic leaves ExecuteRoute / ExecuteCommand / RunTests as a panic.
//
// Place in pkg/interpreter/ and run:
//   go test ./pkg/interpreter/ -run TestDemo10 -count=1 -v

import (
	"fmt"
	"testing"

	"github.com/glyphlang/glyph/pkg/ast"
	"github.com/glyphlang/glyph/pkg/interpreter"
	"github.com/glyphlang/glyph/pkg/mongodb"
	"github.com/glyphlang/glyph/pkg/parser"
)

const demo10Src = `
@ GET /dice {
  > randomInt(0, 9223372036854775807)
}

@ GET /touch {
  % mongo: MongoDB
  $ users = mongo.collection("users")
  $ doc = users.findOne({name: "nobody"})
  $ doc.seen = true
  > doc
}
`

func demo10Eval(t *testing.T, path string) (resp *interpreter.Response, err error, panicked interface{}) {
	t.Helper()
	toks, lerr := parser.NewLexer(demo10Src).Tokenize()
	if lerr != nil {
		t.Fatalf("lex: %v", lerr)
	}
	mod, perr := parser.NewParser(toks).Parse()
	if perr != nil {
		t.Fatalf("parse: %v", perr)
	}
	in := interpreter.NewInterpreter()
	in.SetMongoDBHandler(mongodb.NewMockHandler()) // what `glyph run` installs by default
	if lerr := in.LoadModule(*mod); lerr != nil {
		t.Fatalf("load: %v", lerr)
	}
	var route *ast.Route
	for _, it := range mod.Items {
		if r, ok := it.(*ast.Route); ok && r.Path == path {
			route = r
		}
	}
	defer func() { panicked = recover() }()
	resp, err = in.ExecuteRoute(route, &interpreter.Request{Path: path, Method: "GET"})
	return
}

func TestDemo10_RandomIntFullRangePanics(t *testing.T) {
	resp, err, p := demo10Eval(t, "/dice")
	if p != nil {
		t.Fatalf("GET /dice: the evaluator panicked (%v); want a value in range or a GlyphLang error", p)
	}
	t.Logf("GET /dice ended: %v %v", resp, err)
}

func TestDemo10_AssignToFieldOfNotFoundDocumentPanics(t *testing.T) {
	resp, err, p := demo10Eval(t, "/touch")
	if p != nil {
		t.Fatalf("GET /touch: the evaluator panicked (%v); want a GlyphLang error such as \"cannot assign to field of null\"", p)
	}
	t.Logf("GET /touch ended: %v %v", fmt.Sprint(resp), err)
}
