package compiler

import (
	"encoding/json"
	"testing"

	"github.com/glyphlang/glyph/pkg/ast"
	"github.com/glyphlang/glyph/pkg/vm"
)

func h12v(n string) ast.Expr { return &ast.VariableExpr{Name: n} }
func h12i(n int64) ast.Expr  { return &ast.LiteralExpr{Value: ast.IntLiteral{Value: n}} }
func h12b(op ast.BinOp, l, r ast.Expr) ast.Expr {
	return &ast.BinaryOpExpr{Op: op, Left: l, Right: r}
}
func h12let(n string, e ast.Expr) ast.Statement { return &ast.AssignStatement{Target: n, Value: e} }
func h12set(n string, e ast.Expr) ast.Statement { return &ast.ReassignStatement{Target: n, Value: e} }

// h12run compiles body as the route /t/:p1/:p2... (one path parameter per
// entry of params, so they are free variables with runtime values) and runs it.
func h12run(level OptimizationLevel, body []ast.Statement, params map[string]vm.Value) string {
	path := "/t"
	for k := range params {
		path += "/:" + k
	}
	bc, err := NewCompilerWithOptLevel(level).CompileRoute(&ast.Route{Path: path, Body: body})
	if err != nil {
		return "compile error: " + err.Error()
	}
	m := vm.NewVM()
	for k, val := range params {
		m.SetLocal(k, val)
	}
	res, err := m.Execute(bc)
	if err != nil {
		return "runtime error: " + err.Error()
	}
	out, _ := json.Marshal(res)
	return string(out)
}

func TestH1_2_LoopInvariantHoisting(t *testing.T) {
	incr := h12set("i", h12b(ast.Add, h12v("i"), h12i(1)))

	cases := []struct {
		name   string
		src    string
		body   []ast.Statement
		params map[string]vm.Value
	}{
		{
			name: "zero-trip loop: hoisted assignment runs although the body never does",
			src:  "$ t = 1; $ i = 0; if flag { while i < 0 { $ t = 5; i = i + 1 } }; > t",
			body: []ast.Statement{
				h12let("t", h12i(1)), h12let("i", h12i(0)),
				&ast.IfStatement{Condition: h12v("flag"), ThenBlock: []ast.Statement{
					&ast.WhileStatement{Condition: h12b(ast.Lt, h12v("i"), h12i(0)),
						Body: []ast.Statement{h12let("t", h12i(5)), incr}},
				}},
				&ast.ReturnStatement{Value: h12v("t")},
			},
			params: map[string]vm.Value{"flag": vm.BoolValue{Val: true}},
		},
		{
			name: "target is read earlier in the body: first iteration must see the old value",
			src:  "$ t = 1; $ s = 0; $ i = 0; if flag { while i < 2 { s = s + t; $ t = 5; i = i + 1 } }; > s",
			body: []ast.Statement{
				h12let("t", h12i(1)), h12let("s", h12i(0)), h12let("i", h12i(0)),
				&ast.IfStatement{Condition: h12v("flag"), ThenBlock: []ast.Statement{
					&ast.WhileStatement{Condition: h12b(ast.Lt, h12v("i"), h12i(2)),
						Body: []ast.Statement{
							h12set("s", h12b(ast.Add, h12v("s"), h12v("t"))),
							h12let("t", h12i(5)),
							incr,
						}},
				}},
				&ast.ReturnStatement{Value: h12v("s")},
			},
			params: map[string]vm.Value{"flag": vm.BoolValue{Val: true}},
		},
		{
			name: "zero-trip loop: hoisting introduces a division by zero",
			src:  "$ i = 0; while i < n { $ q = 10 / n; i = i + 1 }; > i     (n = 0)",
			body: []ast.Statement{
				h12let("i", h12i(0)),
				&ast.WhileStatement{Condition: h12b(ast.Lt, h12v("i"), h12v("n")),
					Body: []ast.Statement{h12let("q", h12b(ast.Div, h12i(10), h12v("n"))), incr}},
				&ast.ReturnStatement{Value: h12v("i")},
			},
			params: map[string]vm.Value{"n": vm.IntValue{Val: 0}},
		},
	}

	for _, tc := range cases {
		want := h12run(OptNone, tc.body, tc.params)
		got := h12run(OptAggressive, tc.body, tc.params)
		if got != want {
			t.Errorf("%s\n  program: %s\n  expected (opt level 0): %s\n  actual (OptAggressive): %s", tc.name, tc.src, want, got)
		}
	}
}
