package main

// Belongs in cmd/glyph (package main).
//
// C05: "... with every path parameter bound to the corresponding request
// segment ...; this holds in both execution modes."  (The same mistake also
// forges typed query parameters, C07.)

import (
	"net/http"
	"net/http/httptest"
	"path/filepath"
	"strings"
	"testing"
)

func h3d16Serve(t *testing.T, src string, interpret bool, req *http.Request) *httptest.ResponseRecorder {
	t.Helper()
	module, err := parseSource(src)
	if err != nil {
		t.Fatalf("parse: %v", err)
	}
	useCompiler, _, _, router, err := setupRoutes(module, filepath.Join(t.TempDir(), "main.glyph"), interpret)
	if err != nil {
		t.Fatalf("setupRoutes: %v", err)
	}
	if useCompiler == interpret {
		t.Fatalf("wanted interpret=%v, got useCompiler=%v", interpret, useCompiler)
	}
	mux := http.NewServeMux()
	mux.HandleFunc("/", createHandler(router))
	rec := httptest.NewRecorder()
	mux.ServeHTTP(rec, req)
	return rec
}

func TestH3InterpretedRouteSplitsPathAtAnEncodedQuestionMark(t *testing.T) {
	const src = `
@ GET /docs/:title {
  ? draft: bool = false
  > {title: title, draft: draft}
}
`
	// One path segment, "why?draft=true" (the '?' is percent-encoded, so it is
	// data, not the query delimiter). The request has NO query string.
	const target = "/docs/why%3Fdraft=true"
	const want = `{"draft":false,"title":"why?draft=true"}`

	for _, mode := range []struct {
		name      string
		interpret bool
	}{{"compiled", false}, {"interpreted", true}} {
		req := httptest.NewRequest("GET", target, nil)
		if req.URL.RawQuery != "" {
			t.Fatalf("test bug: request has a query string %q", req.URL.RawQuery)
		}
		rec := h3d16Serve(t, src, mode.interpret, req)
		if got := strings.TrimSpace(rec.Body.String()); rec.Code != 200 || got != want {
			t.Errorf("%s mode: GET %s: got %d %s, want 200 %s", mode.name, target, rec.Code, got, want)
		}
	}
}
