package server

// Belongs in pkg/server (package server).
//
// C05: "the body that runs is the one declared ... for the most specific
// matching path pattern (static segments beat parameters; equal specificity
// goes to the earlier declaration), with every path parameter bound to the
// corresponding request segment" - for overlapping static/parameter patterns
// in any order.

import "testing"

func TestH3RouterSpecificityCountsParameterNamesNotSegments(t *testing.T) {
	r := NewRouter()
	mk := func(path string) *Route {
		return &Route{Method: GET, Path: path, Handler: func(*Context) error { return nil }}
	}
	// Two parameter segments that happen to share a name (the parser accepts
	// this: `@ GET /cmp/:id/:id { ... }`), declared before the more specific route.
	if err := r.RegisterRoute(mk("/cmp/:id/:id")); err != nil {
		t.Fatal(err)
	}
	if err := r.RegisterRoute(mk("/cmp/latest/:id")); err != nil {
		t.Fatal(err)
	}

	route, params, err := r.Match(GET, "/cmp/latest/7")
	if err != nil {
		t.Fatal(err)
	}
	if route.Path != "/cmp/latest/:id" {
		t.Fatalf("GET /cmp/latest/7 matched %q with params %v; want %q: it has one static segment more "+
			"(1 parameter segment against 2), and static segments beat parameters whatever the declaration order",
			route.Path, params, "/cmp/latest/:id")
	}
}
