package compiler

import (
	"encoding/json"
	"testing"

	"github.com/glyphlang/glyph/pkg/ast"
	"github.com/glyphlang/glyph/pkg/vm"
)

func h13v(n string) ast.Expr  { return &ast.VariableExpr{Name: n} }
func h13i(n int64) ast.Expr   { return &ast.LiteralExpr{Value: ast.IntLiteral{Value: n}} }
func h13f(f float64) ast.Expr { return &ast.LiteralExpr{Value: ast.FloatLiteral{Value: f}} }
func h13t(b bool) ast.Expr    { return &ast.LiteralExpr{Value: ast.BoolLiteral{Value: b}} }
func h13b(op ast.BinOp, l, r ast.Expr) ast.Expr {
	return &ast.BinaryOpExpr{Op: op, Left: l, Right: r}
}

func h13run(level OptimizationLevel, ret ast.Expr, params map[string]vm.Value) string {
	path := "/t"
	for k := range params {
		path += "/:" + k
	}
	body := []ast.Statement{&ast.ReturnStatement{Value: ret}}
	bc, err := NewCompilerWithOptLevel(level).CompileRoute(&ast.Route{Path: path, Body: body})
	if err != nil {
		return "compile error: " + err.Error()
	}
	m := vm.NewVM()
	for k, val := range params {
		m.SetLocal(k, val)
	}
	res, err := m.Execute(bc)
	if err != nil {
		return "runtime error: " + err.Error()
	}
	out, _ := json.Marshal(res)
	return string(out)
}

// The algebraic identities of algebraicSimplify (x+0 -> x, x*0 -> 0, x&&true -> x,
// false&&x -> false ...) are applied without knowing the type of x, and they
// delete the evaluation of x.
func TestH1_3_AlgebraicSimplificationChangesResults(t *testing.T) {
	cases := []struct {
		src    string
		expr   ast.Expr
		params map[string]vm.Value
	}{
		{
			// the usual idiom to force float arithmetic
			src:    "> (x + 0.0) / 2        with x = 5 (int)",
			expr:   h13b(ast.Div, h13b(ast.Add, h13v("x"), h13f(0.0)), h13i(2)),
			params: map[string]vm.Value{"x": vm.IntValue{Val: 5}},
		},
		{
			src:    "> (x * 0) == 0         with x = 2.5 (float)",
			expr:   h13b(ast.Eq, h13b(ast.Mul, h13v("x"), h13i(0)), h13i(0)),
			params: map[string]vm.Value{"x": vm.FloatValue{Val: 2.5}},
		},
		{
			src:    `> x + 0                with x = "a" (string): a type error at level 0`,
			expr:   h13b(ast.Add, h13v("x"), h13i(0)),
			params: map[string]vm.Value{"x": vm.StringValue{Val: "a"}},
		},
		{
			src:    "> false && (1 / z == 1) with z = 0: the VM evaluates both operands, level 0 fails",
			expr:   h13b(ast.And, h13t(false), h13b(ast.Eq, h13b(ast.Div, h13i(1), h13v("z")), h13i(1))),
			params: map[string]vm.Value{"z": vm.IntValue{Val: 0}},
		},
	}
	for _, tc := range cases {
		want := h13run(OptNone, tc.expr, tc.params)
		for _, level := range []OptimizationLevel{OptBasic, OptAggressive} {
			if got := h13run(level, tc.expr, tc.params); got != want {
				t.Errorf("%s\n  expected (opt level 0): %s\n  actual (opt level %d):   %s", tc.src, want, level, got)
			}
		}
	}
}
