package main

// Belongs in cmd/glyph (package main).
//
// C05: "equal specificity goes to the earlier declaration ...; this holds in
// both execution modes."

import (
	"net/http"
	"net/http/httptest"
	"path/filepath"
	"strings"
	"testing"
)

func h3d21Serve(t *testing.T, src string, interpret bool, req *http.Request) *httptest.ResponseRecorder {
	t.Helper()
	module, err := parseSource(src)
	if err != nil {
		t.Fatalf("parse: %v", err)
	}
	useCompiler, _, _, router, err := setupRoutes(module, filepath.Join(t.TempDir(), "main.glyph"), interpret)
	if err != nil {
		t.Fatalf("setupRoutes: %v", err)
	}
	if useCompiler == interpret {
		t.Fatalf("wanted interpret=%v, got useCompiler=%v", interpret, useCompiler)
	}
	mux := http.NewServeMux()
	mux.HandleFunc("/", createHandler(router))
	rec := httptest.NewRecorder()
	mux.ServeHTTP(rec, req)
	return rec
}

func TestH3CompiledModeRunsTheLaterOfTwoIdenticalDeclarations(t *testing.T) {
	const src = `
@ GET /status {
  + auth(jwt)
  > {which: "first"}
}

@ GET /status {
  > {which: "second"}
}
`
	t.Setenv(envJWTSecret, "s3cr3t")
	for _, mode := range []struct {
		name      string
		interpret bool
	}{{"interpreted", true}, {"compiled", false}} {
		req := httptest.NewRequest("GET", "/status", nil)
		req.Header.Set("Authorization", "Bearer s3cr3t")
		rec := h3d21Serve(t, src, mode.interpret, req)
		const want = `{"which":"first"}`
		if got := strings.TrimSpace(rec.Body.String()); rec.Code != 200 || got != want {
			t.Errorf("%s mode: two declarations of GET /status: got %d %s, want 200 %s (the earlier declaration)",
				mode.name, rec.Code, got, want)
		}

		// The middlewares of the FIRST declaration are applied in both modes
		// (an unauthenticated request is refused) ...
		rec = h3d21Serve(t, src, mode.interpret, httptest.NewRequest("GET", "/status", nil))
		if rec.Code != 401 {
			t.Errorf("%s mode: unauthenticated request: got %d, want 401 (first declaration has + auth)", mode.name, rec.Code)
		}
		// ... so compiled mode pairs the first declaration's directives with
		// the second declaration's body.
	}
}
