package formatter

// Demo for C18: CompactSource starts reading a word only at a LETTER, so for an
// identifier with a leading underscore it copies "_" and then sees the rest as
// a word of its own. Inside a block the words let/return/use/middleware/
// expects/validate are rewritten wherever they stand, so `_use`, `_let`,
// `_return` ... come back from expand -> compact as `_%`, `_$`, `_>`.
//
// Belongs in: pkg/formatter (package formatter).

import (
	"fmt"
	"reflect"
	"strings"
	"testing"

	"github.com/glyphlang/glyph/pkg/ast"
	"github.com/glyphlang/glyph/pkg/parser"
)

func TestDemoC18_ExpandThenCompactKeepsUnderscoreIdentifiers(t *testing.T) {
	for _, id := range []string{"_use", "_let", "_return", "_validate"} {
		src := "@ GET /m {\n  $ " + id + " = 1\n  > {v: " + id + "}\n}\n"
		want, err := treeD7(src, false)
		if err != nil {
			t.Fatalf("%s: original must parse: %v", id, err)
		}
		expanded := ExpandSource(src)
		if et, err := treeD7(expanded, true); err != nil || et != want {
			t.Fatalf("%s: (not the defect shown here) expanded text differs: %v", id, err)
		}
		back := CompactSource(expanded)
		got, err := treeD7(back, false)
		if err != nil {
			t.Errorf("%s: compact(expand(src)) does not parse: %s\n--- after round trip:\n%s", id,
				strings.Join(strings.Fields(err.Error()), " "), back)
			continue
		}
		if got != want {
			t.Errorf("%s: compact(expand(src)) has a different tree\n--- after round trip:\n%s", id, back)
		}
	}
}

// ---- helpers (position-stripped AST dump; compact / expanded parse) ----

var posTypeD7 = reflect.TypeOf(ast.Pos{})

func dumpD7(v reflect.Value, sb *strings.Builder) {
	if !v.IsValid() {
		sb.WriteString("<nil>")
		return
	}
	if v.Type() == posTypeD7 {
		return
	}
	switch v.Kind() {
	case reflect.Ptr, reflect.Interface:
		if v.IsNil() {
			sb.WriteString("nil")
			return
		}
		dumpD7(v.Elem(), sb)
	case reflect.Struct:
		sb.WriteString(v.Type().Name() + "{")
		for i := 0; i < v.NumField(); i++ {
			f := v.Type().Field(i)
			if f.Type == posTypeD7 {
				continue
			}
			sb.WriteString(f.Name + ":")
			dumpD7(v.Field(i), sb)
			sb.WriteString(" ")
		}
		sb.WriteString("}")
	case reflect.Slice, reflect.Array:
		sb.WriteString("[")
		for i := 0; i < v.Len(); i++ {
			dumpD7(v.Index(i), sb)
			sb.WriteString(",")
		}
		sb.WriteString("]")
	case reflect.String:
		sb.WriteString(fmt.Sprintf("%q", v.String()))
	default:
		sb.WriteString(fmt.Sprintf("%v", v.Interface()))
	}
}

// treeD7 parses src with the compact lexer (expanded=false, what `glyph run x.glyph`
// does) or the expanded lexer (expanded=true, what is done for x.glyphx) and
// returns the syntax tree with all source positions removed.
func treeD7(src string, expanded bool) (string, error) {
	var toks []parser.Token
	var err error
	if expanded {
		toks, err = parser.NewExpandedLexer(src).Tokenize()
	} else {
		toks, err = parser.NewLexer(src).Tokenize()
	}
	if err != nil {
		return "", fmt.Errorf("lexer error: %w", err)
	}
	m, err := parser.NewParser(toks).Parse()
	if err != nil {
		return "", fmt.Errorf("parse error: %w", err)
	}
	var sb strings.Builder
	dumpD7(reflect.ValueOf(m), &sb)
	return sb.String(), nil
}
