package server

// Belongs in pkg/server (package server).
//
// C11: "(a bucket of N refilled at N per window) ... A client staying within
// the rate is never rejected."
//
// Timing based, but with a wide margin: tokens arrive every 500 ms and the
// sleeps are 900 ms, so the test only stops failing if a 900 ms sleep takes
// more than 1000 ms. Fails 100% of runs on an unloaded machine (~1.8 s).

import (
	"net/http/httptest"
	"testing"
	"time"
)

func TestH3RateLimitRefillDropsFractionalTokens(t *testing.T) {
	// 120 per minute = one token every 500 ms, bucket of 120.
	mw := RateLimitMiddleware(RateLimiterConfig{RequestsPerMinute: 120, BurstSize: 120})
	bodyRuns := 0
	h := mw(func(ctx *Context) error {
		bodyRuns++
		ctx.ResponseWriter.WriteHeader(200)
		return nil
	})
	do := func() int {
		req := httptest.NewRequest("GET", "/", nil)
		req.RemoteAddr = "198.51.100.4:5555"
		rec := httptest.NewRecorder()
		if err := h(&Context{Request: req, ResponseWriter: rec, StatusCode: 200}); err != nil {
			t.Fatal(err)
		}
		return rec.Code
	}

	// t=0: use the whole bucket (allowed: it is the burst the bucket exists for).
	for i := 0; i < 120; i++ {
		if code := do(); code != 200 {
			t.Fatalf("burst request %d: got %d, want 200", i+1, code)
		}
	}
	if code := do(); code != 429 {
		t.Fatalf("request 121 of the burst: got %d, want 429", code)
	}

	// t=0.9s: 1.8 tokens have accrued. Spend one; 0.8 remain.
	time.Sleep(900 * time.Millisecond)
	if code := do(); code != 200 {
		t.Fatalf("t=0.9s: got %d, want 200", code)
	}

	// t=1.8s: 0.8 + 1.8 = 2.6 tokens. Two requests are within the rate.
	time.Sleep(900 * time.Millisecond)
	first, second := do(), do()
	if first != 200 || second != 200 {
		t.Fatalf("t=1.8s: a bucket refilled at 2 tokens/s holds 2.6 tokens, so two requests must be admitted; got %d and %d "+
			"(the 0.8 token left over at t=0.9s was discarded when lastRefill was reset)", first, second)
	}
}
