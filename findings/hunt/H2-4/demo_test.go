package interpreter_test

// Demo for defect 4 (C09, and C04): an async block gets a *shallow* snapshot
// of its parent's scope. Objects and arrays in it are the parent's own Go maps
// and slices, and GlyphLang can assign to their fields/elements - so parent and
// block write the same map from two goroutines. That is a data race and, as
// soon as the writes overlap, "fatal error: concurrent map writes", which kills
// the whole server process (the block's recover() cannot catch it).
//
// Place in pkg/interpreter/ and run:
//   go test ./pkg/interpreter/ -run TestDemo4 -count=1 -v
// (add -race to get the race detector's report instead of / before the crash)
//
// The route runs in a child process (the same test binary) because the failure
// is a fatal runtime error.

import (
	"os"
	"os/exec"
	"strings"
	"testing"

	"github.com/glyphlang/glyph/pkg/ast"
	"github.com/glyphlang/glyph/pkg/interpreter"
	"github.com/glyphlang/glyph/pkg/parser"
)

// The parent keeps assigning while the block runs - exactly the shape the
// property quantifies over. Block and parent touch different fields and
// communicate only through await; the expected answer is {k: 19999, m: 19999}
// (or any defined value) - not a dead process.
const demo4Src = `
@ GET /stats {
  $ stats = {k: 0, m: 0}
  $ f = async {
    $ i = 0
    while i < 20000 {
      $ stats.k = i
      i = i + 1
    }
    > stats.k
  }
  $ j = 0
  while j < 20000 {
    $ stats.m = j
    j = j + 1
  }
  $ k = await f
  > {k: k, m: stats.m}
}
`

func TestDemo4Child(t *testing.T) {
	if os.Getenv("DEMO4_CHILD") == "" {
		t.Skip("helper for TestDemo4_AsyncBlockSharesObjectsWithParent")
	}
	toks, err := parser.NewLexer(demo4Src).Tokenize()
	if err != nil {
		t.Fatalf("lex: %v", err)
	}
	mod, err := parser.NewParser(toks).Parse()
	if err != nil {
		t.Fatalf("parse: %v", err)
	}
	in := interpreter.NewInterpreter()
	if err := in.LoadModule(*mod); err != nil {
		t.Fatalf("load: %v", err)
	}
	var route *ast.Route
	for _, it := range mod.Items {
		if r, ok := it.(*ast.Route); ok {
			route = r
		}
	}
	resp, err := in.ExecuteRoute(route, &interpreter.Request{Path: "/stats", Method: "GET"})
	if err != nil {
		t.Fatalf("GET /stats: %v", err)
	}
	body, _ := resp.Body.(map[string]interface{})
	if body["k"] != int64(19999) || body["m"] != int64(19999) {
		t.Errorf("GET /stats = %v, want {k: 19999, m: 19999}", resp.Body)
	}
}

func TestDemo4_AsyncBlockSharesObjectsWithParent(t *testing.T) {
	cmd := exec.Command(os.Args[0], "-test.run=^TestDemo4Child$", "-test.count=1")
	cmd.Env = append(os.Environ(), "DEMO4_CHILD=1")
	out, err := cmd.CombinedOutput()
	if err != nil {
		lines := strings.Split(string(out), "\n")
		if len(lines) > 14 {
			lines = lines[:14]
		}
		t.Fatalf("GET /stats: the process evaluating the route died or reported a race (%v):\n%s", err, strings.Join(lines, "\n"))
	}
}
