package main

import (
	"net/http/httptest"
	"strings"
	"testing"
)

// h1x19get runs src on the tree-walking interpreter (`glyph run --interpret`)
// and returns the response to GET url.
func h1x19get(t *testing.T, src, url string) (int, string) {
	t.Helper()
	module, err := parseSource(src)
	if err != nil {
		t.Fatalf("parse: %v", err)
	}
	_, _, _, router, err := setupRoutes(module, "/tmp/h1-demo.glyph", true)
	if err != nil {
		t.Fatalf("setupRoutes: %v", err)
	}
	w := httptest.NewRecorder()
	createHandler(router).ServeHTTP(w, httptest.NewRequest("GET", url, nil))
	return w.Code, strings.TrimSpace(w.Body.String())
}

// A function's parameters and `$` locals belong to that call. The interpreter
// runs a function body in a child of the *caller's* environment, so a `$ x` in
// the callee assigns the caller's x (or the x of any frame further up), and the
// callee can read the caller's locals.
func TestH1_19_FunctionLocalsAreLocal(t *testing.T) {
	t.Run("recursion with a local", func(t *testing.T) {
		src := `! fact(n: int): int {
  $ k = n
  if k <= 1 {
    > 1
  }
  $ sub = fact(k - 1)
  > k * sub
}
@ GET /fact {
  > {r: fact(4)}
}`
		code, body := h1x19get(t, src, "/fact")
		if code != 200 || body != `{"r":24}` {
			t.Errorf("fact(4):\n  expected: 200 {\"r\":24}\n  actual:   %d %s  (the inner calls' `$ k = n` overwrote the outer calls' k)", code, body)
		}
	})

	t.Run("callee local clobbers caller variable", func(t *testing.T) {
		src := `! helper(): int {
  $ total = 99
  > 1
}
@ GET /a {
  $ total = 1
  $ r = helper()
  > {total: total, r: r}
}`
		code, body := h1x19get(t, src, "/a")
		if code != 200 || body != `{"r":1,"total":1}` {
			t.Errorf("route-local `total` after calling helper():\n  expected: 200 {\"r\":1,\"total\":1}\n  actual:   %d %s", code, body)
		}
	})

	t.Run("callee reads caller local", func(t *testing.T) {
		src := `! peek(): int {
  > secret
}
@ GET /a {
  $ secret = 42
  > {r: peek()}
}`
		code, body := h1x19get(t, src, "/a")
		if code == 200 {
			t.Errorf("peek() refers to `secret`, which is not defined in the function nor globally:\n  expected: an error (undefined variable: secret)\n  actual:   %d %s (it read the calling route's local)", code, body)
		}
	})
}
