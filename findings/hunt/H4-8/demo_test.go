package vm

import (
	"strings"
	"testing"
	"time"
)

// Demo: the step limit of a VM does not cover the async bodies it starts.
// execAsync runs the body on NewVM(), i.e. with a fresh DefaultMaxSteps budget,
// whatever SetMaxSteps said. A file that must stop after 1000 steps runs
// 100 000 000 steps per async block (and every further block gets another
// 100M), so "bounded by the step limit" does not hold for bytecode that uses
// OpAsync; un-awaited bodies even keep burning CPU after Execute returned.
func TestDemoAsyncBodyIgnoresStepLimit(t *testing.T) {
	// header: 0 constants
	bc := []byte{'G', 'L', 'Y', 'P', 1, 0, 0, 0, 0, 0, 0, 0}
	body := []byte{
		byte(OpAsync), 5, 0, 0, 0, // async body of 5 bytes:
		byte(OpJump), 0, 0, 0, 0, //   L0: jump L0   (body-relative target, as the compiler emits)
		byte(OpAwait),
		byte(OpHalt),
	}
	bc = append(bc, byte(len(body)), 0, 0, 0)
	bc = append(bc, body...)

	m := NewVM()
	m.SetMaxSteps(1000)
	start := time.Now()
	_, err := m.Execute(bc)
	elapsed := time.Since(start)
	if err == nil {
		t.Fatalf("infinite loop returned without error")
	}
	if !strings.Contains(err.Error(), "(1000 steps)") {
		t.Errorf("VM limited to 1000 steps stopped only with: %v (after %v)", err, elapsed)
	}
}
