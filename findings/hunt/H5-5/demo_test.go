package database

// Belongs in: pkg/database  (package database)
//
// C13: "any identifier, operator, sort direction, join type or COLUMN TYPE outside
// the safe grammar is rejected before reaching the database. Executed against a
// real database, no input makes a statement read or change anything other than
// the table and columns named."
//
// sanitizeColumnType / sanitizeSQLiteColumnType / sanitizeMySQLColumnType only
// check (a) a character class that includes ',', '(' and ')' and (b) that the
// FIRST word is a known type. Everything after the first word is spliced into
// CREATE TABLE verbatim, so a "type" can add columns and table constraints, or
// close the column list and append table-level clauses.

import (
	"context"
	"sort"
	"strings"
	"testing"
)

func TestH5_ColumnTypeSmugglesExtraDDL_RealSQLite(t *testing.T) {
	ctx := context.Background()
	db := NewSQLiteDB(&Config{Driver: "sqlite", Database: ":memory:"})
	if err := db.Connect(ctx); err != nil {
		t.Fatal(err)
	}
	defer db.Close()

	// The caller names exactly ONE column: "name".
	err := db.CreateTable(ctx, "accounts", map[string]string{
		"name": "TEXT NOT NULL, is_admin INTEGER DEFAULT 1",
	})

	var cols []string
	rows, qerr := db.Query(ctx, `SELECT name FROM pragma_table_info('accounts')`)
	if qerr != nil {
		t.Fatal(qerr)
	}
	for rows.Next() {
		var c string
		if err := rows.Scan(&c); err != nil {
			t.Fatal(err)
		}
		cols = append(cols, c)
	}
	rows.Close()
	sort.Strings(cols)

	if err == nil || len(cols) != 0 {
		t.Errorf("CreateTable(accounts, {name: %q})\n"+
			"  expected: rejected with an invalid-column-type error, nothing created\n"+
			"  actual:   err=%v, table created with columns %v (column \"is_admin\" was never named by the caller)",
			"TEXT NOT NULL, is_admin INTEGER DEFAULT 1", err, cols)
	}
}

func TestH5_ColumnTypeSanitizersAcceptStructuralSQL(t *testing.T) {
	sanitizers := map[string]func(string) (string, error){
		"postgres": sanitizeColumnType,
		"sqlite":   sanitizeSQLiteColumnType,
		"mysql":    sanitizeMySQLColumnType,
	}
	// Each of these, spliced into `CREATE TABLE IF NOT EXISTS t (col <type>)`,
	// yields a well-formed statement that does more than declare `col`.
	payloads := []string{
		// extra column
		"TEXT NOT NULL, is_admin INTEGER DEFAULT 1",
		"VARCHAR(10), evil TEXT",
		// table constraint touching another table
		"INTEGER NOT NULL, FOREIGN KEY (col) REFERENCES users(id) ON DELETE CASCADE",
		// closes the column list: PostgreSQL -> CREATE TABLE t (col INTEGER ) INHERITS (secrets)
		// (t becomes a child of `secrets`; SELECT * FROM secrets now also returns t's rows)
		"INTEGER ) INHERITS (secrets",
		// MySQL -> CREATE TABLE t (col INT ) ENGINE MERGE UNION (secrets)  (t reads secrets' rows)
		"INT ) ENGINE MERGE UNION (secrets",
		// arbitrary function call evaluated by the server on every insert
		"TEXT DEFAULT (randomblob(1000000000))",
	}
	// Controls: what the project's own tests/docs use must stay accepted by a fix.
	for _, okType := range []string{"INTEGER PRIMARY KEY AUTOINCREMENT", "TEXT NOT NULL", "VARCHAR(255)", "NUMERIC(10, 2)"} {
		if _, err := sanitizeSQLiteColumnType(okType); err != nil {
			t.Fatalf("control %q unexpectedly rejected: %v", okType, err)
		}
	}

	for driver, sanitize := range sanitizers {
		for _, p := range payloads {
			out, err := sanitize(p)
			if err == nil {
				t.Errorf("%s: column type %q\n  expected: rejected\n  actual:   accepted verbatim -> CREATE TABLE IF NOT EXISTS t (col %s)",
					driver, p, strings.TrimSpace(out))
			}
		}
	}
}
