package hotreload

// Belongs in: pkg/hotreload  (package hotreload)
//
// C19 (reload manager): "A later valid edit always takes effect."
// FileWatcher.shouldExclude matches the default excludes ("node_modules",
// ".git", "vendor") as SUBSTRINGS of the whole path, not as path components.
// A project whose directory or file name merely contains one of them
// (my.github.io/, vendor-portal/, vendors.glyph, ...) is never scanned: no edit
// to the watched file is ever detected, so no reload - valid or not - happens.

import (
	"context"
	"os"
	"path/filepath"
	"sync"
	"testing"
	"time"
)

type h5d9Compiler struct{}

func (h5d9Compiler) CompileFile(path string) ([]byte, error) { return os.ReadFile(path) }

type h5d9Server struct {
	mu      sync.Mutex
	current string
}

func (s *h5d9Server) Reload(b []byte) error {
	s.mu.Lock()
	defer s.mu.Unlock()
	s.current = string(b)
	return nil
}
func (s *h5d9Server) GetState() map[string]interface{}      { return nil }
func (s *h5d9Server) SetState(map[string]interface{}) error { return nil }
func (s *h5d9Server) version() string                       { s.mu.Lock(); defer s.mu.Unlock(); return s.current }

func TestH5_EditsIgnoredWhenPathMerelyContainsAnExcludeWord(t *testing.T) {
	cases := map[string]string{
		"control: ordinary project dir":    filepath.Join("shop", "main.glyph"),
		"project dir my.github.io":         filepath.Join("my.github.io", "main.glyph"),
		"project dir vendor-portal":        filepath.Join("vendor-portal", "main.glyph"),
		"watched file named vendors.glyph": filepath.Join("shop2", "vendors.glyph"),
	}
	for name, rel := range cases {
		t.Run(name, func(t *testing.T) {
			root, err := os.MkdirTemp("", "h5d9-") // neutral prefix: no exclude word in the path
			if err != nil {
				t.Fatal(err)
			}
			defer os.RemoveAll(root)
			file := filepath.Join(root, rel)
			if err := os.MkdirAll(filepath.Dir(file), 0700); err != nil {
				t.Fatal(err)
			}
			if err := os.WriteFile(file, []byte("version 1"), 0600); err != nil {
				t.Fatal(err)
			}

			srv := &h5d9Server{current: "version 1"}
			rm := NewReloadManager([]string{filepath.Dir(file)}, h5d9Compiler{}, srv)
			ctx, cancel := context.WithCancel(context.Background())
			defer cancel()
			if err := rm.Start(ctx); err != nil {
				t.Fatal(err)
			}
			defer rm.Stop()

			if err := os.WriteFile(file, []byte("version 2"), 0600); err != nil {
				t.Fatal(err)
			}
			// poll 500ms + debounce 200ms; allow 3 full poll cycles
			deadline := time.Now().Add(2 * time.Second)
			for time.Now().Before(deadline) && srv.version() != "version 2" {
				time.Sleep(50 * time.Millisecond)
			}
			if got := srv.version(); got != "version 2" {
				t.Errorf("valid edit of %s\n  expected: reload manager compiles it and the server runs \"version 2\"\n  actual:   no reload after 2s, server still runs %q (reload count %d)",
					rel, got, rm.Stats().ReloadCount)
			}
		})
	}
}
