package main

// Belongs in: cmd/glyph  (package main)
//
// C19: a FAILED reload must leave the running (last good) version untouched.
// setupRoutes() overwrites the package-level compiledTypeDefs map with the NEW
// module's type definitions before it knows whether the new module compiles.
// When the reload then fails, the old server keeps running but validates
// request bodies against the type definitions of the rejected version.

import (
	"bytes"
	"fmt"
	"io"
	"net"
	"net/http"
	"os"
	"path/filepath"
	"testing"
	"time"
)

func h5d1FreePort(t *testing.T) int {
	t.Helper()
	l, err := net.Listen("tcp", "127.0.0.1:0")
	if err != nil {
		t.Fatal(err)
	}
	defer l.Close()
	return l.Addr().(*net.TCPAddr).Port
}

func h5d1Post(t *testing.T, url, body string) (int, string) {
	t.Helper()
	req, _ := http.NewRequest("POST", url, bytes.NewBufferString(body))
	req.Header.Set("Content-Type", "application/json")
	resp, err := (&http.Client{Timeout: 3 * time.Second}).Do(req)
	if err != nil {
		return -1, err.Error()
	}
	defer resp.Body.Close()
	b, _ := io.ReadAll(resp.Body)
	return resp.StatusCode, string(b)
}

// Version 1: loads fine (compiled mode).
const h5d1Good = `: NewUser {
  name: str!
}

@ POST /users {
  < input: NewUser
  > {ok: true, name: input.name}
}

@ GET /v {
  > {version: 1}
}
`

// Version 2: the type gets a new required field AND an unrelated route has a
// semantic error (redeclaration), so the whole reload is rejected.
const h5d1Broken = `: NewUser {
  name: str!
  age: int!
}

@ POST /users {
  < input: NewUser
  > {ok: true, name: input.name}
}

@ GET /v {
  $ x = 1
  $ x = 2
  > {version: 2}
}
`

func TestH5_FailedReloadLeaksTypeDefsIntoRunningServer(t *testing.T) {
	dir := t.TempDir()
	file := filepath.Join(dir, "main.glyph")
	if err := os.WriteFile(file, []byte(h5d1Good), 0600); err != nil {
		t.Fatal(err)
	}
	port := h5d1FreePort(t)
	m := &hotReloadManager{filePath: file, port: port, liveReloadConns: make(map[*liveReloadConn]bool)}
	if err := m.startServer(); err != nil {
		t.Fatalf("initial start: %v", err)
	}
	defer func() { m.server.Close() }()
	url := fmt.Sprintf("http://127.0.0.1:%d/users", port)

	before, beforeBody := h5d1Post(t, url, `{"name":"ann"}`)
	if before != 200 {
		t.Fatalf("precondition: v1 should accept {name}: got %d %s", before, beforeBody)
	}

	if err := os.WriteFile(file, []byte(h5d1Broken), 0600); err != nil {
		t.Fatal(err)
	}
	err := m.startServer() // what reload() calls
	if err == nil {
		t.Fatalf("precondition: the broken version must be rejected")
	}
	t.Logf("reload rejected as expected: %v", err)

	after, afterBody := h5d1Post(t, url, `{"name":"ann"}`)
	if after != before {
		t.Fatalf("failed reload changed the behaviour of the still-running v1 server:\n"+
			"  expected: %d %s (same as before the failed reload)\n"+
			"  actual:   %d %s",
			before, beforeBody, after, afterBody)
	}
}
