package interpreter_test

// Demo for defect 2 (C08, also C09): the recursion guard counts the nesting of
// ALL goroutines that use the interpreter in one shared counter
// (Interpreter.evalDepth), so requests that are each far below the limit make
// each other fail with "maximum evaluation depth exceeded".
//
// Place in pkg/interpreter/ and run:
//   go test ./pkg/interpreter/ -run TestDemo2 -count=1 -v

import (
	"sync"
	"testing"

	"github.com/glyphlang/glyph/pkg/ast"
	"github.com/glyphlang/glyph/pkg/interpreter"
	"github.com/glyphlang/glyph/pkg/parser"
)

func demo2Load(t *testing.T, src string) (*interpreter.Interpreter, map[string]*ast.Route) {
	t.Helper()
	toks, err := parser.NewLexer(src).Tokenize()
	if err != nil {
		t.Fatalf("lex: %v", err)
	}
	mod, err := parser.NewParser(toks).Parse()
	if err != nil {
		t.Fatalf("parse: %v", err)
	}
	in := interpreter.NewInterpreter()
	if err := in.LoadModule(*mod); err != nil {
		t.Fatalf("load: %v", err)
	}
	routes := map[string]*ast.Route{}
	for _, it := range mod.Items {
		if r, ok := it.(*ast.Route); ok {
			routes[r.Path] = r
		}
	}
	return in, routes
}

// down(100) nests about 200 evaluation levels: well inside the limit of 500.
// The loop at the bottom only keeps the request at that depth for a moment, as
// a database call or any other work at the bottom of a call chain would.
const demo2Src = `
! down(n: int): int {
  if n == 0 {
    $ i = 0
    while i < 30000 {
      i = i + 1
    }
    > 0
  }
  > 1 + down(n - 1)
}

@ GET /down {
  > down(100)
}

@ GET /seq {
  $ a = down(60)
  $ b = down(60)
  $ c = down(60)
  $ d = down(60)
  $ e = down(60)
  $ f = down(60)
  > a + b + c + d + e + f
}

@ GET /par {
  $ fa = async { > down(60) }
  $ fb = async { > down(60) }
  $ fc = async { > down(60) }
  $ fd = async { > down(60) }
  $ fe = async { > down(60) }
  $ ff = async { > down(60) }
  $ a = await fa
  $ b = await fb
  $ c = await fc
  $ d = await fd
  $ e = await fe
  $ f = await ff
  > a + b + c + d + e + f
}
`

func TestDemo2_ConcurrentRequestsShareTheDepthBudget(t *testing.T) {
	in, routes := demo2Load(t, demo2Src)
	route := routes["/down"]
	req := func() (interface{}, error) {
		resp, err := in.ExecuteRoute(route, &interpreter.Request{Path: "/down", Method: "GET"})
		if err != nil {
			return nil, err
		}
		return resp.Body, nil
	}

	// The only request in flight: fine.
	if v, err := req(); err != nil || v != int64(100) {
		t.Fatalf("sequential GET /down = %v, %v; want 100", v, err)
	}

	const n = 8
	var wg sync.WaitGroup
	errs := make([]error, n)
	vals := make([]interface{}, n)
	for g := 0; g < n; g++ {
		wg.Add(1)
		go func(g int) {
			defer wg.Done()
			vals[g], errs[g] = req()
		}(g)
	}
	wg.Wait()

	failed := 0
	for g := 0; g < n; g++ {
		if errs[g] != nil || vals[g] != int64(100) {
			failed++
		}
	}
	if failed > 0 {
		msg := ""
		for g := 0; g < n; g++ {
			if errs[g] != nil {
				msg = errs[g].Error()
				if len(msg) > 60 {
					msg = "…" + msg[len(msg)-60:]
				}
				break
			}
		}
		t.Errorf("%d of %d concurrent GET /down failed although each succeeds alone (want all = 100); e.g. %s", failed, n, msg)
	}
}

// C09 face of the same counter: within ONE request, blocks that communicate
// only through await get a result that depends on how they are scheduled.
func TestDemo2_AsyncBlocksShareTheDepthBudget(t *testing.T) {
	in, routes := demo2Load(t, demo2Src)

	resp, err := in.ExecuteRoute(routes["/seq"], &interpreter.Request{Path: "/seq", Method: "GET"})
	if err != nil || resp.Body != int64(360) {
		t.Fatalf("GET /seq (the same six calls, one after the other) = %v, %v; want 360", resp, err)
	}

	resp, err = in.ExecuteRoute(routes["/par"], &interpreter.Request{Path: "/par", Method: "GET"})
	if err != nil {
		msg := err.Error()
		if len(msg) > 60 {
			msg = "…" + msg[len(msg)-60:]
		}
		t.Fatalf("GET /par (six async blocks, awaited in order) failed: %s; want 360 as for /seq", msg)
	}
	if resp.Body != int64(360) {
		t.Errorf("GET /par = %v, want 360", resp.Body)
	}
}
