package jit

import (
	"encoding/json"
	"testing"
	"time"

	"github.com/glyphlang/glyph/pkg/ast"
	"github.com/glyphlang/glyph/pkg/compiler"
	"github.com/glyphlang/glyph/pkg/vm"
)

// $ c = true
// if c { $ y = 1 }      <- y lives in the block
// $ y = 2               <- a different, route-level y: legal
// > y
func h15route() *ast.Route {
	lit := func(l ast.Literal) ast.Expr { return &ast.LiteralExpr{Value: l} }
	return &ast.Route{Path: "/y", Body: []ast.Statement{
		&ast.AssignStatement{Target: "c", Value: lit(ast.BoolLiteral{Value: true})},
		&ast.IfStatement{
			Condition: &ast.VariableExpr{Name: "c"},
			ThenBlock: []ast.Statement{&ast.AssignStatement{Target: "y", Value: lit(ast.IntLiteral{Value: 1})}},
		},
		&ast.AssignStatement{Target: "y", Value: lit(ast.IntLiteral{Value: 2})},
		&ast.ReturnStatement{Value: &ast.VariableExpr{Name: "y"}},
	}}
}

func h15exec(t *testing.T, bc []byte) string {
	t.Helper()
	res, err := vm.NewVM().Execute(bc)
	if err != nil {
		return "runtime error: " + err.Error()
	}
	out, _ := json.Marshal(res)
	return string(out)
}

// C03: every optimisation level must accept the program and return 2.
func TestH1_5_ConstantIfInliningKeepsBlockScope(t *testing.T) {
	base, err := compiler.NewCompilerWithOptLevel(compiler.OptNone).CompileRoute(h15route())
	if err != nil {
		t.Fatalf("level 0 must compile: %v", err)
	}
	want := h15exec(t, base)
	if want != "2" {
		t.Fatalf("level 0 result %s, want 2", want)
	}
	for _, level := range []compiler.OptimizationLevel{compiler.OptBasic, compiler.OptAggressive} {
		bc, err := compiler.NewCompilerWithOptLevel(level).CompileRoute(h15route())
		if err != nil {
			t.Errorf("opt level %d: expected the same result as level 0 (%s), actual: compilation fails: %v (semantic error: %v)",
				level, want, err, compiler.IsSemanticError(err))
			continue
		}
		if got := h15exec(t, bc); got != want {
			t.Errorf("opt level %d: expected %s, actual %s", level, want, got)
		}
	}
}

// C15: the same route served through the JIT. It works while it is cold and
// starts failing the moment it is promoted to the optimised tier.
func TestH1_5_JITPromotionBreaksRoute(t *testing.T) {
	j := NewJITCompilerWithConfig(10, 0) // promote after 5 executions, no waiting window
	route := h15route()

	bc, err := j.CompileRoute("GET /y", route)
	if err != nil {
		t.Fatalf("cold route must compile: %v", err)
	}
	if got := h15exec(t, bc); got != "2" {
		t.Fatalf("cold route: got %s, want 2", got)
	}
	for i := 0; i < 6; i++ {
		j.RecordExecution("GET /y", time.Millisecond)
	}
	bc, err = j.CompileRoute("GET /y", route)
	if err != nil {
		t.Fatalf("hot route: expected bytecode that still answers 2 (as a fresh baseline compilation does), actual: %v", err)
	}
	if got := h15exec(t, bc); got != "2" {
		t.Fatalf("hot route: expected 2, actual %s", got)
	}
}
