package websocket

import (
	"testing"
	"time"
)

// Demo: with MessageQueueStrategy=block, Connection.Send parks until the queue
// drains or closeSend() closes c.done. closeSend is only ever called by the hub
// loop (unregister / broadcast eviction). Handlers run ON the hub loop, so a
// handler replying to a connection whose WritePump has already exited (write
// error / WriteWait timeout towards a stalled peer: WritePump returns without
// closing anything) parks the hub loop in Send, and the ReadPump's
// `hub.unregister <- c` that would release it can never be received.
func TestDemoBlockStrategySendFromHandlerDeadlocksHub(t *testing.T) {
	cfg := DefaultConfig()
	cfg.MessageQueueStrategy = QueueStrategyBlock
	cfg.MessageQueueSize = 1
	hub := NewHubWithConfig(cfg)
	go hub.Run()
	<-hub.started

	// A registered connection whose WritePump is gone (never started here; in
	// production it returned from a failed NextWriter/Close after WriteWait).
	conn := NewConnection("stalled", nil, hub)
	hub.register <- conn

	// Default ping handler replies with one message per ping: two pings overflow
	// the 1-slot queue.
	hub.handleMessage <- &MessageContext{Conn: conn, Message: &Message{Type: MessageTypePing}}
	hub.handleMessage <- &MessageContext{Conn: conn, Message: &Message{Type: MessageTypePing}}

	time.Sleep(200 * time.Millisecond) // the hub loop is now inside the second reply

	// What ReadPump's defer does once the socket dies.
	unregistered := make(chan struct{})
	go func() { hub.unregister <- conn; close(unregistered) }()

	select {
	case <-unregistered:
	case <-time.After(3 * time.Second):
		t.Fatal("hub loop is parked in Connection.Send (block strategy) and can no longer receive the unregister that would unblock it")
	}
}
