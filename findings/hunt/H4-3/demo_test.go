package websocket

import (
	"io"
	"log"
	"os"
	"sync"
	"testing"
)

// Demo: Connection.JoinRoom and Connection.LeaveRoom each update the two
// membership views (Room.connections and Connection.rooms) in two separate
// critical sections, in opposite orders. A join and a leave of the same
// connection issued from two goroutines (e.g. the message handler on the hub
// loop and RestoreConnectionState / an HTTP-side caller) interleave so that,
// after both have returned, the connection believes it is in the room while the
// room does not contain it (or the other way round). Nothing repairs that later.
func TestDemoJoinLeaveRaceSplitsMembershipViews(t *testing.T) {
	log.SetOutput(io.Discard)
	defer log.SetOutput(os.Stderr)

	hub := NewHub()
	go hub.Run()
	<-hub.started
	rm := hub.GetRoomManager()

	const rounds = 400000 // stops at the first hit; ~1 hit per 10k rounds without -race, ~1 per 130 with -race
	bad := 0
	var first string
	for i := 0; i < rounds; i++ {
		conn := NewConnection("c", nil, hub)
		hub.register <- conn
		var wg sync.WaitGroup
		start := make(chan struct{})
		wg.Add(2)
		go func() { defer wg.Done(); <-start; conn.JoinRoom("r") }()
		go func() { defer wg.Done(); <-start; conn.LeaveRoom("r") }()
		close(start)
		wg.Wait()

		// quiescent: both operations have returned
		room, _ := rm.GetRoom("r")
		inRoom := room != nil && room.Has(conn)
		thinks := conn.IsInRoom("r")
		if inRoom != thinks {
			bad++
			if first == "" {
				if thinks {
					first = "conn.IsInRoom(r)=true but room.Has(conn)=false (believes it is a member, receives nothing)"
				} else {
					first = "conn.IsInRoom(r)=false but room.Has(conn)=true (receives room traffic, GetRooms() hides it, a later LeaveRoom-less disconnect is the only way out)"
				}
			}
		}
		conn.LeaveRoom("r")
		hub.unregister <- conn
		if bad > 0 {
			t.Fatalf("round %d ended with the two membership views disagreeing: %s", i, first)
		}
	}
}
