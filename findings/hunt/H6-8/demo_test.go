package formatter

// Demo for C18 (idempotence clause, "every byte string at all"):
// CanonicalizeSource strips one U+FEFF only when it is the very first thing in
// the input, and strings.TrimSpace does not regard U+FEFF as white space. When
// the first pass removes what stood in front of a BOM (another BOM, blank
// lines, indentation), that BOM becomes the first bytes of the output, and the
// second pass strips it: fmt(fmt(x)) != fmt(x), and `glyph fmt --check` keeps
// reporting a file that `glyph fmt` has just formatted.
//
// Belongs in: pkg/formatter (package formatter).

import "testing"

func TestDemoC18_FmtIdempotentAroundBOM(t *testing.T) {
	cases := []struct{ name, src string }{
		{"two BOMs (two BOM-prefixed files concatenated)", "\ufeff\ufeff$ x = 1\n"},
		{"blank line before the BOM", "\n\ufeff$ x = 1\n"},
		{"indentation before the BOM", "  \ufeff$ x = 1\n"},
		{"CRLF before the BOM", "\r\n\ufeff# header\r\n$ x = 1\r\n"},
	}
	for _, c := range cases {
		once := CanonicalizeSource(c.src)
		twice := CanonicalizeSource(once)
		if once != twice {
			t.Errorf("%s: not idempotent\n input: %q\n once:  %q\n twice: %q", c.name, c.src, once, twice)
		}
	}
}
