package main

// Belongs in cmd/glyph (package main).
//
// C07: "an unparsable typed query value yields a 4xx ... both execution modes".

import (
	"net/http"
	"net/http/httptest"
	"path/filepath"
	"strings"
	"testing"
)

func h3d12Serve(t *testing.T, src string, interpret bool, req *http.Request) *httptest.ResponseRecorder {
	t.Helper()
	module, err := parseSource(src)
	if err != nil {
		t.Fatalf("parse: %v", err)
	}
	useCompiler, _, _, router, err := setupRoutes(module, filepath.Join(t.TempDir(), "main.glyph"), interpret)
	if err != nil {
		t.Fatalf("setupRoutes: %v", err)
	}
	if useCompiler == interpret {
		t.Fatalf("wanted interpret=%v, got useCompiler=%v", interpret, useCompiler)
	}
	mux := http.NewServeMux()
	mux.HandleFunc("/", createHandler(router))
	rec := httptest.NewRecorder()
	mux.ServeHTTP(rec, req)
	return rec
}

func TestH3CompiledRouteDropsUnparsableTypedQueryValue(t *testing.T) {
	const src = `
@ GET /items {
  ? page: int
  > {page: page}
}
`
	for _, mode := range []struct {
		name      string
		interpret bool
	}{{"interpreted", true}, {"compiled", false}} {
		for _, rawQuery := range []string{
			"page=abc", // control: both modes answer 400
			"page=1;2", // value "1;2" is not an int
			"page=%zz", // malformed escape
			"page=7%",  // malformed escape
		} {
			req := httptest.NewRequest("GET", "/items", nil)
			req.URL.RawQuery = rawQuery
			rec := h3d12Serve(t, src, mode.interpret, req)
			if rec.Code < 400 || rec.Code > 499 {
				t.Errorf("%s mode: `? page: int` with ?%s: the body ran and answered %d %s; want a 4xx",
					mode.name, rawQuery, rec.Code, strings.TrimSpace(rec.Body.String()))
			}
		}
	}
}
