package formatter

// Demo for C18: CanonicalizeSource turns EVERY carriage return into a line
// feed before it looks at the line structure. The lexer only treats a CR as
// blank space between tokens; inside a string literal it is an ordinary
// character and inside a comment it is part of the comment (a comment ends at
// LF only). `glyph fmt` therefore splits string literals and comments that
// contain a bare CR, which changes the token sequence - the file stops
// parsing, or code that was commented out becomes live.
//
// Belongs in: pkg/formatter (package formatter).

import (
	"fmt"
	"strings"
	"testing"

	"github.com/glyphlang/glyph/pkg/parser"
)

func TestDemoC18_FmtKeepsTokensWithBareCR(t *testing.T) {
	cases := []struct{ name, src string }{
		{"CR inside a string literal", "@ GET /m {\n  > {s: \"line1\rline2\"}\n}\n"},
		{"CR inside a comment", "@ GET /m {\n  $ x = 1 # old:\r  $ x = 2\n  > {x: x}\n}\n"},
	}
	for _, c := range cases {
		before, err := tokensD6(c.src)
		if err != nil {
			t.Fatalf("%s: original must lex: %v", c.name, err)
		}
		formatted := CanonicalizeSource(c.src)
		after, err := tokensD6(formatted)
		if err != nil {
			t.Errorf("%s: formatted file no longer lexes: %s\n--- formatted: %q", c.name,
				strings.Join(strings.Fields(err.Error()), " "), formatted)
			continue
		}
		if before != after {
			t.Errorf("%s: glyph fmt changed the token sequence\n--- before: %s\n--- after:  %s\n--- formatted: %q",
				c.name, before, after, formatted)
		}
	}
}

// tokensD6 lexes src with the compact lexer and renders the token sequence.
// Runs of NEWLINE tokens are folded into one (fmt is allowed to drop blank
// lines) and positions are ignored.
func tokensD6(src string) (string, error) {
	toks, err := parser.NewLexer(src).Tokenize()
	if err != nil {
		return "", err
	}
	var sb strings.Builder
	prevNL := true
	for _, tk := range toks {
		if tk.Type == parser.NEWLINE {
			if prevNL {
				continue
			}
			prevNL = true
		} else {
			prevNL = false
		}
		fmt.Fprintf(&sb, "%v(%q) ", tk.Type, tk.Literal)
	}
	return sb.String(), nil
}
