package interpreter_test

import (
	"context"
	"testing"
	"time"

	"github.com/glyphlang/glyph/pkg/ast"
	"github.com/glyphlang/glyph/pkg/database"
	"github.com/glyphlang/glyph/pkg/interpreter"
	"github.com/glyphlang/glyph/pkg/parser"
)

// runRouteD10 parses real GlyphLang source and executes its route on interp.
func runRouteD10(t *testing.T, interp *interpreter.Interpreter, src string) (resp *interpreter.Response, err error, panicked interface{}) {
	t.Helper()
	toks, lerr := parser.NewLexer(src).Tokenize()
	if lerr != nil {
		t.Fatalf("lex: %v", lerr)
	}
	mod, perr := parser.NewParser(toks).Parse()
	if perr != nil {
		t.Fatalf("parse: %v", perr)
	}
	if e := interp.LoadModule(*mod); e != nil {
		t.Fatalf("load: %v", e)
	}
	var route *ast.Route
	for _, it := range mod.Items {
		if r, ok := it.(*ast.Route); ok {
			route = r
		}
	}
	defer func() { panicked = recover() }()
	resp, err = interp.ExecuteRoute(route, &interpreter.Request{Path: route.Path, Method: "GET"})
	return
}

// Demo: a GlyphLang `null` argument crashes a provider call and wedges the
// database. db.<table>.where(...) (allow-listed) returns a *database.QueryBuilder;
// its Get(ctx)/First(ctx) are reachable because "Get"/"First" are allow-listed
// names. CallMethod turns `null` into the zero value of ANY interface-typed
// parameter - here a nil context.Context - and calls the method without a
// recover. database/sql dereferences the nil context *while holding sql.DB's
// mutex*: the request panics out of ExecuteRoute and every later query on the
// same pool blocks forever.
func TestDemoNullArgumentPanicsProviderCallAndWedgesDB(t *testing.T) {
	db := database.NewSQLiteDB(&database.Config{Driver: "sqlite", Database: ":memory:"})
	if err := db.Connect(context.Background()); err != nil {
		t.Skip(err)
	}
	db.Exec(context.Background(), "CREATE TABLE users (id INTEGER PRIMARY KEY, name TEXT)")
	db.Exec(context.Background(), "INSERT INTO users (id,name) VALUES (1,'a')")

	interp := interpreter.NewInterpreter()
	interp.SetDatabaseHandler(database.NewHandler(db))

	src := "@ GET /x {\n  % db: Database\n  $ q = db.users.where(\"id\", \"=\", 1)\n  > q.get(null)\n}\n"
	resp, err, panicked := runRouteD10(t, interp, src)
	if panicked != nil {
		t.Errorf("q.get(null) panicked out of ExecuteRoute instead of returning an error: %v", panicked)
	} else {
		t.Logf("resp=%+v err=%v", resp, err)
	}

	// An ordinary, valid request afterwards.
	done := make(chan struct{})
	go func() {
		defer close(done)
		r, e, p := runRouteD10(t, interp, "@ GET /y {\n  % db: Database\n  > db.users.all()\n}\n")
		t.Logf("follow-up request: resp=%+v err=%v panic=%v", r, e, p)
	}()
	select {
	case <-done:
	case <-time.After(5 * time.Second):
		t.Fatal("follow-up db.users.all() still blocked after 5s: the panic left sql.DB's mutex locked, the pool is unusable for every later request")
	}
}
