package main

// Belongs in cmd/glyph (package main).
//
// C07: "Conforming requests are never rejected, and defaults are applied
// exactly to absent fields ... both execution modes" - typed query parameters.

import (
	"net/http"
	"net/http/httptest"
	"path/filepath"
	"strings"
	"testing"
)

func h3d13Serve(t *testing.T, src string, interpret bool, req *http.Request) *httptest.ResponseRecorder {
	t.Helper()
	module, err := parseSource(src)
	if err != nil {
		t.Fatalf("parse: %v", err)
	}
	useCompiler, _, _, router, err := setupRoutes(module, filepath.Join(t.TempDir(), "main.glyph"), interpret)
	if err != nil {
		t.Fatalf("setupRoutes: %v", err)
	}
	if useCompiler == interpret {
		t.Fatalf("wanted interpret=%v, got useCompiler=%v", interpret, useCompiler)
	}
	mux := http.NewServeMux()
	mux.HandleFunc("/", createHandler(router))
	rec := httptest.NewRecorder()
	mux.ServeHTTP(rec, req)
	return rec
}

func TestH3CompiledRouteSkipsNonLiteralQueryDefault(t *testing.T) {
	for _, tc := range []struct{ decl, want string }{
		{"? page: int = 1", `{"v":1}`},       // control: literal default works in both modes
		{"? page: int = -1", `{"v":-1}`},     // unary minus is not an ast.LiteralExpr
		{"? page: int = 10 * 2", `{"v":20}`}, // constant expression
	} {
		src := "@ GET /items {\n  " + tc.decl + "\n  > {v: page}\n}\n"
		for _, mode := range []struct {
			name      string
			interpret bool
		}{{"interpreted", true}, {"compiled", false}} {
			rec := h3d13Serve(t, src, mode.interpret, httptest.NewRequest("GET", "/items", nil))
			if got := strings.TrimSpace(rec.Body.String()); rec.Code != 200 || got != tc.want {
				t.Errorf("%s mode: `%s` and a request without ?page: got %d %s, want 200 %s",
					mode.name, tc.decl, rec.Code, got, tc.want)
			}
		}
	}
}
