package main

// Belongs in cmd/glyph (package main).
//
// C05: "the body that runs is the one declared for ... the most specific
// matching path pattern ..., with every path parameter bound to the
// corresponding request segment. A request matching no declaration gets 404
// ...; this holds in both execution modes."

import (
	"net/http"
	"net/http/httptest"
	"path/filepath"
	"strings"
	"testing"
)

func h3d15Serve(t *testing.T, src string, interpret bool, req *http.Request) *httptest.ResponseRecorder {
	t.Helper()
	module, err := parseSource(src)
	if err != nil {
		t.Fatalf("parse: %v", err)
	}
	useCompiler, _, _, router, err := setupRoutes(module, filepath.Join(t.TempDir(), "main.glyph"), interpret)
	if err != nil {
		t.Fatalf("setupRoutes: %v", err)
	}
	if useCompiler == interpret {
		t.Fatalf("wanted interpret=%v, got useCompiler=%v", interpret, useCompiler)
	}
	mux := http.NewServeMux()
	mux.HandleFunc("/", createHandler(router))
	rec := httptest.NewRecorder()
	mux.ServeHTTP(rec, req)
	return rec
}

func TestH3RouterTrimsWhitespaceOffTheRequestPath(t *testing.T) {
	const src = `
@ GET /files {
  > {route: "list"}
}

@ GET /files/:name {
  > {route: "one", name: name}
}
`
	for _, mode := range []struct {
		name      string
		interpret bool
	}{{"interpreted", true}, {"compiled", false}} {
		// The last segment is "a " (a, space): a file name with a trailing blank.
		rec := h3d15Serve(t, src, mode.interpret, httptest.NewRequest("GET", "/files/a%20", nil))
		if got, want := strings.TrimSpace(rec.Body.String()), `{"name":"a ","route":"one"}`; rec.Code != 200 || got != want {
			t.Errorf("%s mode: GET /files/a%%20: got %d %s, want 200 %s", mode.name, rec.Code, got, want)
		}

		// The last segment is " " (a single space): two segments, so it is
		// /files/:name with name=" " - certainly not the one-segment route.
		rec = h3d15Serve(t, src, mode.interpret, httptest.NewRequest("GET", "/files/%20", nil))
		if got, want := strings.TrimSpace(rec.Body.String()), `{"name":" ","route":"one"}`; rec.Code != 200 || got != want {
			t.Errorf("%s mode: GET /files/%%20: got %d %s, want 200 %s", mode.name, rec.Code, got, want)
		}
	}
}
