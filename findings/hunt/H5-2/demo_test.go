package main

// Belongs in: cmd/glyph  (package main)
//
// C19: a semantically invalid edit must be reported as a failed reload and the
// previous version must keep serving. Several edits that PARSE fine make
// prepareDevServer() panic inside http.ServeMux registration (duplicate /
// conflicting patterns). In `glyph dev`, reload() runs on a time.AfterFunc
// goroutine (server.go:263) with no recover, so the panic kills the process.

import (
	"fmt"
	"io"
	"net"
	"net/http"
	"os"
	"path/filepath"
	"testing"
	"time"
)

func h5d2FreePort(t *testing.T) int {
	t.Helper()
	l, err := net.Listen("tcp", "127.0.0.1:0")
	if err != nil {
		t.Fatal(err)
	}
	defer l.Close()
	return l.Addr().(*net.TCPAddr).Port
}

func h5d2Get(url string) (int, string) {
	resp, err := (&http.Client{Timeout: 3 * time.Second}).Get(url)
	if err != nil {
		return -1, err.Error()
	}
	defer resp.Body.Close()
	b, _ := io.ReadAll(resp.Body)
	return resp.StatusCode, string(b)
}

const h5d2WS = "@ ws %s {\n  on message {\n    ws.broadcast(input)\n  }\n}\n"

func TestH5_SemanticallyInvalidEditPanicsTheReload(t *testing.T) {
	v2 := "@ GET /v {\n  > {version: 2}\n}\n\n"
	edits := map[string]string{
		"two websocket routes with the same path": v2 + fmt.Sprintf(h5d2WS, "/chat") + fmt.Sprintf(h5d2WS, "/chat"),
		"websocket route at /":                    v2 + fmt.Sprintf(h5d2WS, "/"),
		"websocket route at /__livereload":        v2 + fmt.Sprintf(h5d2WS, "/__livereload"),
		"websocket route repeating a path param":  v2 + fmt.Sprintf(h5d2WS, "/chat/:room/:room"),
		"two static routes with the same prefix":  v2 + "@ static /a \"pub\"\n@ static /a \"pub\"\n",
	}

	for name, src := range edits {
		t.Run(name, func(t *testing.T) {
			dir := t.TempDir()
			if err := os.MkdirAll(filepath.Join(dir, "pub"), 0700); err != nil {
				t.Fatal(err)
			}
			file := filepath.Join(dir, "main.glyph")
			if err := os.WriteFile(file, []byte("@ GET /v {\n  > {version: 1}\n}\n"), 0600); err != nil {
				t.Fatal(err)
			}
			if _, err := parseSource(src); err != nil {
				t.Fatalf("precondition: the edit must parse, got %v", err)
			}
			port := h5d2FreePort(t)
			m := &hotReloadManager{filePath: file, port: port, liveReloadConns: make(map[*liveReloadConn]bool)}
			if err := m.startServer(); err != nil {
				t.Fatalf("initial start: %v", err)
			}
			defer func() { m.server.Close() }()

			if err := os.WriteFile(file, []byte(src), 0600); err != nil {
				t.Fatal(err)
			}

			// Exactly what the watcher's debounce timer runs.
			var panicked interface{}
			func() {
				defer func() { panicked = recover() }()
				m.reload()
			}()

			if panicked != nil {
				t.Errorf("expected: reload() reports \"reload failed\" and returns, previous version keeps serving\n"+
					"actual:   reload() PANICKED (on the watcher's timer goroutine this terminates `glyph dev`):\n  %v", panicked)
			}
			st, body := h5d2Get(fmt.Sprintf("http://127.0.0.1:%d/v", port))
			t.Logf("GET /v after the edit (only alive because the test recovered): %d %s", st, body)
		})
	}
}
