package formatter

// Demo for C18: `glyph expand` only rewrites a sigil when it is the first thing
// on a line. Every other occurrence of @ $ % ~ stays in the .glyphx text, but
// the ExpandedLexer has no token for those four characters at all, so the
// expanded file is rejected with "invalid character".
//
// Belongs in: pkg/formatter (package formatter).

import (
	"fmt"
	"reflect"
	"strings"
	"testing"

	"github.com/glyphlang/glyph/pkg/ast"
	"github.com/glyphlang/glyph/pkg/parser"
)

func TestDemoC18_ExpandedTextKeepsMidLineSigils(t *testing.T) {
	cases := []struct{ name, src string }{
		{"modulo operator", "@ GET /m {\n  $ r = 7 % 3\n  > {r: r}\n}\n"},
		{"field annotation", ": User {\n  name: str! @minLen(2)\n}\n"},
		{"one-line block with $", "@ GET /m {\n  if true { $ y = 1 }\n  > {ok: true}\n}\n"},
	}
	for _, c := range cases {
		want, err := treeD3(c.src, false)
		if err != nil {
			t.Fatalf("%s: original must parse: %v", c.name, err)
		}
		expanded := ExpandSource(c.src)
		got, err := treeD3(expanded, true)
		if err != nil {
			t.Errorf("%s: expanded text does not parse: %s\n--- expanded:\n%s", c.name,
				strings.Join(strings.Fields(err.Error()), " "), expanded)
			continue
		}
		if got != want {
			t.Errorf("%s: expanded text parses to a different tree\n--- expanded:\n%s", c.name, expanded)
		}
	}
}

// ---- helpers (position-stripped AST dump; compact / expanded parse) ----

var posTypeD3 = reflect.TypeOf(ast.Pos{})

func dumpD3(v reflect.Value, sb *strings.Builder) {
	if !v.IsValid() {
		sb.WriteString("<nil>")
		return
	}
	if v.Type() == posTypeD3 {
		return
	}
	switch v.Kind() {
	case reflect.Ptr, reflect.Interface:
		if v.IsNil() {
			sb.WriteString("nil")
			return
		}
		dumpD3(v.Elem(), sb)
	case reflect.Struct:
		sb.WriteString(v.Type().Name() + "{")
		for i := 0; i < v.NumField(); i++ {
			f := v.Type().Field(i)
			if f.Type == posTypeD3 {
				continue
			}
			sb.WriteString(f.Name + ":")
			dumpD3(v.Field(i), sb)
			sb.WriteString(" ")
		}
		sb.WriteString("}")
	case reflect.Slice, reflect.Array:
		sb.WriteString("[")
		for i := 0; i < v.Len(); i++ {
			dumpD3(v.Index(i), sb)
			sb.WriteString(",")
		}
		sb.WriteString("]")
	case reflect.String:
		sb.WriteString(fmt.Sprintf("%q", v.String()))
	default:
		sb.WriteString(fmt.Sprintf("%v", v.Interface()))
	}
}

// treeD3 parses src with the compact lexer (expanded=false, what `glyph run x.glyph`
// does) or the expanded lexer (expanded=true, what is done for x.glyphx) and
// returns the syntax tree with all source positions removed.
func treeD3(src string, expanded bool) (string, error) {
	var toks []parser.Token
	var err error
	if expanded {
		toks, err = parser.NewExpandedLexer(src).Tokenize()
	} else {
		toks, err = parser.NewLexer(src).Tokenize()
	}
	if err != nil {
		return "", fmt.Errorf("lexer error: %w", err)
	}
	m, err := parser.NewParser(toks).Parse()
	if err != nil {
		return "", fmt.Errorf("parse error: %w", err)
	}
	var sb strings.Builder
	dumpD3(reflect.ValueOf(m), &sb)
	return sb.String(), nil
}
