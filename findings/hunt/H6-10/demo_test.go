package cache

// Demo for C20 (liveness clause): the WithOnEvict callback is invoked by
// removeElement while c.mu is write-locked (from Set's eviction loop, Get on an
// expired entry, Delete, DeleteByTag, Clear, InvalidateByPrefix and the cleanup
// goroutine). sync.RWMutex is not re-entrant, so a callback that touches the
// cache - reads Stats() for a metric, deletes a dependent key, re-inserts the
// value into a second-level key - never returns, and every other caller of the
// cache then blocks behind the held lock.
//
// Belongs in: pkg/cache (package cache).

import (
	"testing"
	"time"
)

func TestDemoC20_OnEvictCallbackMayUseTheCache(t *testing.T) {
	var c *LRUCache
	c = NewLRUCache(
		WithCapacity(1),
		WithOnEvict(func(key string, value interface{}) {
			_ = c.Stats() // e.g. export the size as a gauge on every eviction
		}),
	)
	defer c.Close()

	done := make(chan struct{})
	go func() {
		c.Set("a", "1", 0)
		c.Set("b", "2", 0) // evicts "a" -> callback -> Stats() -> RLock under Lock
		close(done)
	}()

	select {
	case <-done:
	case <-time.After(2 * time.Second):
		t.Fatal("Set did not return within 2s: onEvict runs under the cache mutex and the callback's Stats() call deadlocks")
	}

	// with the lock stuck, unrelated callers hang as well
	got := make(chan bool, 1)
	go func() { _, ok := c.Get("b"); got <- ok }()
	select {
	case <-got:
	case <-time.After(time.Second):
		t.Fatal("Get blocked forever behind the stuck Set")
	}
}
