package websocket

import (
	"net/http"
	"net/http/httptest"
	"strings"
	"testing"
	"time"

	"github.com/gorilla/websocket"
)

// Demo: a message handler (which the hub runs on its own event-loop goroutine)
// that closes its connection -- exactly what a compiled `ws.close("...")`
// statement does through VMHandler.Close -> Connection.Close -- sends on the
// unbuffered hub.unregister channel from the only goroutine that ever receives
// from it. The hub loop blocks forever: no connect, disconnect, message or
// broadcast is processed afterwards.
func TestDemoCloseFromHandlerDeadlocksHub(t *testing.T) {
	server := NewServer()
	hub := server.GetHub()
	// no server.Shutdown(): with the defect it would hang as well.

	hub.OnEvent("kick", func(ctx *MessageContext) error {
		// same call cmd/glyph/server.go:executeWebSocketBytecode makes for ws.close()
		return NewVMHandler(ctx.Conn, hub).Close("bye")
	})

	ts := httptest.NewServer(http.HandlerFunc(server.HandleWebSocket))
	defer ts.Close()
	wsURL := "ws" + strings.TrimPrefix(ts.URL, "http")

	c1, _, err := websocket.DefaultDialer.Dial(wsURL, nil)
	if err != nil {
		t.Fatal(err)
	}
	defer c1.Close()
	if !pollCondition(func() bool { return hub.GetConnectionCount() == 1 }, 2*time.Second) {
		t.Fatal("client 1 never registered")
	}

	if err := c1.WriteMessage(websocket.TextMessage, []byte(`{"type":"json","event":"kick"}`)); err != nil {
		t.Fatal(err)
	}

	// The kicked connection must go away ...
	if !pollCondition(func() bool { return hub.GetConnectionCount() == 0 }, 3*time.Second) {
		t.Errorf("connection closed by its handler is still registered after 3s (count=%d)", hub.GetConnectionCount())
	}

	// ... and the hub must still serve everybody else.
	c2, _, err := websocket.DefaultDialer.Dial(wsURL, nil)
	if err == nil {
		defer c2.Close()
	}
	registered := make(chan struct{})
	go func() {
		// what HandleWebSocket does for every new client
		probe := NewConnection("probe", nil, hub)
		hub.register <- probe
		close(registered)
	}()
	select {
	case <-registered:
	case <-time.After(3 * time.Second):
		t.Fatal("hub event loop is deadlocked: hub.register not serviced 3s after a handler called ws.close()")
	}
}
