package interpreter_test

// Demo for defect 1 (C08): a route-level `$ name = value` whose name is also
// bound at module level (a constant, a function) is written THROUGH into the
// interpreter's global environment, which every request shares.
//
// Place in pkg/interpreter/ and run:
//   go test ./pkg/interpreter/ -run TestDemo1 -count=1 -v

import (
	"testing"

	"github.com/glyphlang/glyph/pkg/ast"
	"github.com/glyphlang/glyph/pkg/interpreter"
	"github.com/glyphlang/glyph/pkg/parser"
)

func demo1Load(t *testing.T, src string) (*interpreter.Interpreter, map[string]*ast.Route) {
	t.Helper()
	toks, err := parser.NewLexer(src).Tokenize()
	if err != nil {
		t.Fatalf("lex: %v", err)
	}
	mod, err := parser.NewParser(toks).Parse()
	if err != nil {
		t.Fatalf("parse: %v", err)
	}
	in := interpreter.NewInterpreter()
	if err := in.LoadModule(*mod); err != nil {
		t.Fatalf("load: %v", err)
	}
	routes := map[string]*ast.Route{}
	for _, it := range mod.Items {
		if r, ok := it.(*ast.Route); ok {
			routes[r.Path] = r
		}
	}
	return in, routes
}

func demo1Run(t *testing.T, in *interpreter.Interpreter, r *ast.Route) interface{} {
	t.Helper()
	resp, err := in.ExecuteRoute(r, &interpreter.Request{Path: r.Path, Method: "GET"})
	if err != nil {
		t.Fatalf("GET %s failed: %v", r.Path, err)
	}
	return resp.Body
}

const demo1Src = `
const LIMIT = 10

! helper(x: int): int {
  > x + 1
}

@ GET /read {
  > LIMIT
}

@ GET /bump {
  $ LIMIT = LIMIT + 1
  > LIMIT
}

@ GET /use {
  > helper(1)
}

@ GET /shadow {
  $ helper = 5
  > helper
}
`

// One request's local declaration must not change what another request sees.
func TestDemo1_LocalDeclarationLeaksIntoOtherRequests(t *testing.T) {
	in, routes := demo1Load(t, demo1Src)

	if got := demo1Run(t, in, routes["/read"]); got != int64(10) {
		t.Fatalf("GET /read before = %v, want 10", got)
	}
	// (whether /bump answers 11 or is rejected is not the point here)
	in.ExecuteRoute(routes["/bump"], &interpreter.Request{Path: "/bump", Method: "GET"})
	in.ExecuteRoute(routes["/bump"], &interpreter.Request{Path: "/bump", Method: "GET"})
	if got := demo1Run(t, in, routes["/read"]); got != int64(10) {
		t.Errorf("GET /read after two GET /bump = %v, want 10: a `$` declaration in one request changed a module constant for every later request", got)
	}
}

// ... and it must not be able to break another route for good.
func TestDemo1_LocalDeclarationClobbersFunctionForEveryone(t *testing.T) {
	in, routes := demo1Load(t, demo1Src)

	if got := demo1Run(t, in, routes["/use"]); got != int64(2) {
		t.Fatalf("GET /use before = %v, want 2", got)
	}
	in.ExecuteRoute(routes["/shadow"], &interpreter.Request{Path: "/shadow", Method: "GET"})

	resp, err := in.ExecuteRoute(routes["/use"], &interpreter.Request{Path: "/use", Method: "GET"})
	if err != nil {
		t.Fatalf("GET /use after GET /shadow fails for every later request: %v", err)
	}
	if resp.Body != int64(2) {
		t.Errorf("GET /use after GET /shadow = %v, want 2", resp.Body)
	}
}
