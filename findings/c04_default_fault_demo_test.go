package main

import (
	"net/http"
	"net/http/httptest"
	"strings"
	"testing"
)

// A default expression that faults is a fault of the program: 500 with a generic body, not a 400 with interpreter text.
func TestFaultingFieldDefaultIsAServerFault(t *testing.T) {
	src := ": Opts {\n  size: int = n * 10\n}\n@ POST /page/:n {\n  < input: Opts\n  > {size: input.size}\n}\n"
	module, err := parseSource(src)
	if err != nil {
		t.Fatal(err)
	}
	_, _, _, router, err := setupRoutes(module, "/tmp/x.glyph", true)
	if err != nil {
		t.Fatal(err)
	}
	mux := http.NewServeMux()
	mux.HandleFunc("/", createHandler(router))
	rec := httptest.NewRecorder()
	req := httptest.NewRequest("POST", "/page/3", strings.NewReader(`{}`))
	req.Header.Set("Content-Type", "application/json")
	mux.ServeHTTP(rec, req)
	body := strings.TrimSpace(rec.Body.String())
	t.Logf("%d %s", rec.Code, body)
	if rec.Code != 500 || strings.Contains(body, "multiply") || strings.Contains(body, "applying defaults") {
		t.Errorf("got %d %s, want 500 with a generic body", rec.Code, body)
	}
}
