package compiler

// Demonstration for C02/C09: a compiled async block that contains a loop or an if.
// Copy into /repo/pkg/compiler; go test -run TestZZAsyncJumps ./pkg/compiler/
// The body's jump targets are relative to the body (the VM runs it from pc 0), but buildBytecode
// added the file-header size to them as it does for top-level code: the loop jumped out of the body
// and the block returned null / a wrong value, where the interpreter returns 3 (0+1+2).

import (
	"fmt"
	"testing"

	"github.com/glyphlang/glyph/pkg/ast"
	"github.com/glyphlang/glyph/pkg/vm"
)

func TestZZAsyncJumps(t *testing.T) {
	lit := func(v int64) ast.Expr { return &ast.LiteralExpr{Value: ast.IntLiteral{Value: v}} }
	v := func(n string) ast.Expr { return &ast.VariableExpr{Name: n} }
	body := []ast.Statement{
		&ast.AssignStatement{Target: "s", Value: lit(0)},
		&ast.AssignStatement{Target: "i", Value: lit(0)},
		&ast.WhileStatement{
			Condition: &ast.BinaryOpExpr{Op: ast.Lt, Left: v("i"), Right: lit(3)},
			Body: []ast.Statement{
				&ast.ReassignStatement{Target: "s", Value: &ast.BinaryOpExpr{Op: ast.Add, Left: v("s"), Right: v("i")}},
				&ast.ReassignStatement{Target: "i", Value: &ast.BinaryOpExpr{Op: ast.Add, Left: v("i"), Right: lit(1)}},
			},
		},
		&ast.ReturnStatement{Value: v("s")},
	}
	route := &ast.Route{Path: "/t", Body: []ast.Statement{
		&ast.AssignStatement{Target: "f", Value: &ast.AsyncExpr{Body: body}},
		&ast.ReturnStatement{Value: &ast.AwaitExpr{Expr: v("f")}},
	}}
	for _, level := range []OptimizationLevel{OptNone, OptBasic} {
		bc, err := NewCompilerWithOptLevel(level).CompileRoute(route)
		if err != nil {
			t.Fatalf("level %d: compile: %v", level, err)
		}
		m := vm.NewVM()
		m.SetMaxSteps(100000)
		res, err := m.Execute(bc)
		got := fmt.Sprintf("%v %v", res, err)
		if got != "{3} <nil>" {
			t.Errorf("level %d: compiled async block with a loop gives %s, want {3} <nil>", level, got)
		}
	}
}
