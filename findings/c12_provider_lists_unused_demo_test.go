package interpreter_test

import (
	"context"
	"testing"

	"github.com/glyphlang/glyph/pkg/ast"
	"github.com/glyphlang/glyph/pkg/database"
	"github.com/glyphlang/glyph/pkg/interpreter"
	"github.com/glyphlang/glyph/pkg/parser"
)

// runRoute parses real GlyphLang source and executes its route on interp.
func runRoute(t *testing.T, interp *interpreter.Interpreter, src string) (resp *interpreter.Response, err error, panicked interface{}) {
	t.Helper()
	toks, lerr := parser.NewLexer(src).Tokenize()
	if lerr != nil {
		t.Fatalf("lex: %v", lerr)
	}
	mod, perr := parser.NewParser(toks).Parse()
	if perr != nil {
		t.Fatalf("parse: %v", perr)
	}
	if e := interp.LoadModule(*mod); e != nil {
		t.Fatalf("load: %v", e)
	}
	var route *ast.Route
	for _, it := range mod.Items {
		if r, ok := it.(*ast.Route); ok {
			route = r
		}
	}
	defer func() { panicked = recover() }()
	resp, err = interp.ExecuteRoute(route, &interpreter.Request{Path: route.Path, Method: "GET"})
	return
}

// A custom provider: its contract / allow-list is {Lookup}. It also has Go
// methods that must stay out of reach of GlyphLang code.
type SessionCache struct{ calls []string }

func (c *SessionCache) Lookup(k string) string { c.calls = append(c.calls, "Lookup"); return "v:" + k }
func (c *SessionCache) FlushAll() string       { c.calls = append(c.calls, "FlushAll"); return "flushed" }
func (c *SessionCache) Delete(k string) bool   { c.calls = append(c.calls, "Delete"); return true }
func (c *SessionCache) Keys(p string) []interface{} {
	c.calls = append(c.calls, "Keys")
	return []interface{}{"secret-session-id"}
}

// Demo: the per-provider allow-lists (providerMethods / RegisterProviderMethods
// / IsProviderMethodAllowed) are never consulted by the dispatch path. CallMethod
// and callReceiverMethod only look at the global union allowedMethods, so
//   - every method whose NAME is allow-listed for some other provider is
//     reachable on this provider (FlushAll, Delete, Keys ...), in every spelling
//     and call form;
//   - the provider's own registered operation is refused.
func TestDemoCustomProviderAllowListIsIgnored(t *testing.T) {
	interpreter.RegisterProviderMethods("SessionCache", []string{"Lookup"})
	if interpreter.IsProviderMethodAllowed("SessionCache", "FlushAll") {
		t.Fatal("precondition: FlushAll is not in the SessionCache allow-list")
	}

	cache := &SessionCache{}
	interp := interpreter.NewInterpreter()
	interp.SetProviderHandler("SessionCache", cache)

	for _, call := range []string{
		`cache.flushAll()`,   // method call
		`cache.FLUSHALL()`,   // other casing
		`flushall(cache)`,    // free-function form
		`cache.delete("k")`,  // listed for Database/HTTP only
		`cache.keys("*")`,    // listed for Redis only; `keys` is also a builtin name
	} {
		cache.calls = nil
		src := "@ GET /x {\n  % cache: SessionCache\n  > " + call + "\n}\n"
		resp, err, p := runRoute(t, interp, src)
		if len(cache.calls) > 0 {
			t.Errorf("%-20s reached Go method %v which is NOT in the provider's allow-list (status=%d body=%v)",
				call, cache.calls, resp.StatusCode, resp.Body)
		}
		_, _ = err, p
	}

	// ... while the one operation the provider does expose is blocked.
	cache.calls = nil
	_, err, _ := runRoute(t, interp, "@ GET /x {\n  % cache: SessionCache\n  > cache.lookup(\"k\")\n}\n")
	if err != nil || len(cache.calls) != 1 {
		t.Errorf("cache.lookup(\"k\") (allow-listed for SessionCache) was refused: err=%v calls=%v", err, cache.calls)
	}
}

// Same root cause on the built-in providers: operations that are not on the
// Database list are reachable on a database table because some other
// provider's list contains the name.
func TestDemoDatabaseTableExposesRedisListedMethod(t *testing.T) {
	if interpreter.IsProviderMethodAllowed("Database", "Exists") {
		t.Fatal("precondition: Exists is not in the Database allow-list")
	}
	db := database.NewSQLiteDB(&database.Config{Driver: "sqlite", Database: ":memory:"})
	if err := db.Connect(context.Background()); err != nil {
		t.Skip(err)
	}
	defer db.Close()
	db.Exec(context.Background(), "CREATE TABLE users (id INTEGER PRIMARY KEY, name TEXT)")
	db.Exec(context.Background(), "INSERT INTO users (id,name) VALUES (1,'a')")

	interp := interpreter.NewInterpreter()
	interp.SetDatabaseHandler(database.NewHandler(db))
	resp, err, _ := runRoute(t, interp, "@ GET /x {\n  % db: Database\n  > db.users.exists(\"id\", 1)\n}\n")
	if err == nil && resp != nil && resp.Body == true {
		t.Errorf("db.users.exists(...) executed (body=%v) although Exists is only allow-listed for Redis", resp.Body)
	}
}
