package cache

// Demo for C20: the byte-size limit is enforced only when a NEW key is
// inserted. Set / SetWithTags on a key that is already present replace the
// entry in place and adjust currentSize without the "does it fit at all" check
// and without the evict-until-fits loop, so the cache grows past WithMaxSize
// (even with a single value that is larger than the whole limit) and stays
// there.
//
// Belongs in: pkg/cache (package cache).

import (
	"strings"
	"testing"
)

func TestDemoC20_UpdateInPlaceRespectsMaxSize(t *testing.T) {
	const max = 100
	for _, withTags := range []bool{false, true} {
		c := NewLRUCache(WithCapacity(10), WithMaxSize(max))
		set := func(k, v string) error {
			if withTags {
				return c.SetWithTags(k, v, 0, []string{"t"})
			}
			return c.Set(k, v, 0)
		}

		// 1. growing an existing entry next to other entries
		set("a", strings.Repeat("a", 10))
		set("b", strings.Repeat("b", 80))
		err := set("a", strings.Repeat("A", 90)) // 90 + 80 = 170 > 100
		if st := c.Stats(); st.Size > max {
			t.Errorf("withTags=%v: after growing existing key: Size=%d > MaxSize=%d (entries=%d, err=%v)",
				withTags, st.Size, st.MaxSize, st.EntryCount, err)
		}

		// 2. a value that can never fit is refused for a new key ...
		if err := set("new", strings.Repeat("n", 5000)); err == nil {
			t.Errorf("withTags=%v: oversized value for a new key was accepted", withTags)
		}
		// ... but accepted when the key already exists
		err = set("b", strings.Repeat("B", 5000))
		if st := c.Stats(); st.Size > max {
			t.Errorf("withTags=%v: after oversized update: Size=%d > MaxSize=%d (err=%v)", withTags, st.Size, st.MaxSize, err)
		}
		c.Close()
	}
}
