package main

import (
	"net/http/httptest"
	"testing"
	"net/http"
	"strings"
)

func TestCallbackSeesModuleConstants(t *testing.T) {
	src := "const LIMIT = 10\n! addLimit(x: int): int {\n  > x + LIMIT\n}\n@ GET /direct {\n  > {r: addLimit(1)}\n}\n@ GET /mapped {\n  > {r: map([1, 2], addLimit)}\n}\n"
	module, err := parseSource(src)
	if err != nil {
		t.Fatal(err)
	}
	_, _, _, router, err := setupRoutes(module, "/tmp/x.glyph", true)
	if err != nil {
		t.Fatal(err)
	}
	mux := http.NewServeMux()
	mux.HandleFunc("/", createHandler(router))
	for _, p := range []string{"/direct", "/mapped"} {
		rec := httptest.NewRecorder()
		mux.ServeHTTP(rec, httptest.NewRequest("GET", p, nil))
		t.Logf("%s -> %d %s", p, rec.Code, strings.TrimSpace(rec.Body.String()))
		if rec.Code != 200 {
			t.Errorf("%s: %d", p, rec.Code)
		}
	}
}
