package compiler

// Demonstration for C03: facts learnt inside a while body must not survive the loop
// (zero-trip loops, break/continue). Copy into /repo/pkg/compiler and run
//   go test -run TestZZWhileFacts ./pkg/compiler/
// Fails before "fix: forget facts about variables a loop body assigns when the loop ends".

import (
	"fmt"
	"testing"

	"github.com/glyphlang/glyph/pkg/ast"
	"github.com/glyphlang/glyph/pkg/vm"
)

func zzRun(level OptimizationLevel, body []ast.Statement, n int64) string {
	route := &ast.Route{Path: "/t/:n", Body: body}
	bc, err := NewCompilerWithOptLevel(level).CompileRoute(route)
	if err != nil {
		return "compile error: " + err.Error()
	}
	m := vm.NewVM()
	m.SetMaxSteps(100000)
	m.SetLocal("n", vm.IntValue{Val: n})
	res, err := m.Execute(bc)
	if err != nil {
		return "runtime error: " + err.Error()
	}
	return fmt.Sprintf("%T %v", res, res)
}

func zzLit(v int64) ast.Expr { return &ast.LiteralExpr{Value: ast.IntLiteral{Value: v}} }

func zzWhileProgram() []ast.Statement {
	// $ x = 1
	// $ i = n
	// while i > 0 { x = 5  i = i - 1 }
	// > x
	return []ast.Statement{
		&ast.AssignStatement{Target: "x", Value: zzLit(1)},
		&ast.AssignStatement{Target: "i", Value: &ast.VariableExpr{Name: "n"}},
		&ast.WhileStatement{
			Condition: &ast.BinaryOpExpr{Op: ast.Gt, Left: &ast.VariableExpr{Name: "i"}, Right: zzLit(0)},
			Body: []ast.Statement{
				&ast.ReassignStatement{Target: "x", Value: zzLit(5)},
				&ast.ReassignStatement{Target: "i", Value: &ast.BinaryOpExpr{Op: ast.Sub, Left: &ast.VariableExpr{Name: "i"}, Right: zzLit(1)}},
			},
		},
		&ast.ReturnStatement{Value: &ast.VariableExpr{Name: "x"}},
	}
}

func TestZZWhileFacts(t *testing.T) {
	for _, n := range []int64{0, 1, 3} {
		want := zzRun(OptNone, zzWhileProgram(), n)
		for _, level := range []OptimizationLevel{OptBasic, OptAggressive} {
			if got := zzRun(level, zzWhileProgram(), n); got != want {
				t.Errorf("n=%d level=%d: got %q, unoptimised gives %q", n, level, got, want)
			}
		}
	}
}
