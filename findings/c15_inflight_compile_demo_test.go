package jit

// Demonstration for C15: a compilation that is in flight while the route is invalidated and re-compiled
// from its new definition must not publish code of the old definition afterwards.
// Copy into /repo/pkg/jit; go test -run TestZZInflightCompile ./pkg/jit/
// History: A: CompileRoute(r, OLD) starts (slow: big body) | B: InvalidateCache(r); CompileRoute(r, NEW)
//          | A finishes and caches OLD | CompileRoute(r, NEW) -> served from cache: OLD code.

import (
	"fmt"
	"sync"
	"testing"

	"github.com/glyphlang/glyph/pkg/ast"
	"github.com/glyphlang/glyph/pkg/vm"
)

func zzRoute(ret int64, pad int) *ast.Route {
	var body []ast.Statement
	for i := 0; i < pad; i++ {
		body = append(body, &ast.AssignStatement{Target: fmt.Sprintf("pad%d", i), Value: &ast.BinaryOpExpr{Op: ast.Add,
			Left: &ast.LiteralExpr{Value: ast.IntLiteral{Value: int64(i)}}, Right: &ast.LiteralExpr{Value: ast.IntLiteral{Value: 1}}}})
	}
	body = append(body, &ast.ReturnStatement{Value: &ast.LiteralExpr{Value: ast.IntLiteral{Value: ret}}})
	return &ast.Route{Path: "/r", Body: body}
}

func zzRunBC(t *testing.T, bc []byte) int64 {
	m := vm.NewVM()
	res, err := m.Execute(bc)
	if err != nil {
		t.Fatalf("execute: %v", err)
	}
	return res.(vm.IntValue).Val
}

func TestZZInflightCompile(t *testing.T) {
	oldDef, newDef := zzRoute(1, 4000), zzRoute(2, 0)
	stale := 0
	for trial := 0; trial < 60; trial++ {
		j := NewJITCompiler()
		var wg sync.WaitGroup
		started := make(chan struct{})
		wg.Add(1)
		go func() {
			defer wg.Done()
			close(started)
			if _, err := j.CompileRoute("r", oldDef); err != nil {
				t.Error(err)
			}
		}()
		<-started
		j.InvalidateCache("r") // the route was redefined
		if _, err := j.CompileRoute("r", newDef); err != nil {
			t.Fatal(err)
		}
		wg.Wait()
		bc, err := j.CompileRoute("r", newDef)
		if err != nil {
			t.Fatal(err)
		}
		if got := zzRunBC(t, bc); got != 2 {
			stale++
		}
	}
	if stale > 0 {
		t.Fatalf("in %d of 60 histories the JIT served code of the old definition after InvalidateCache + recompilation from the new one", stale)
	}
}
