package formatter

import (
	"fmt"
	"os"
	"path/filepath"
	"reflect"
	"strings"
	"testing"

	"github.com/glyphlang/glyph/pkg/ast"
	"github.com/glyphlang/glyph/pkg/parser"
)

var zzPosType = reflect.TypeOf(ast.Pos{})

func zzDump(v reflect.Value, sb *strings.Builder) {
	if !v.IsValid() {
		sb.WriteString("<nil>")
		return
	}
	if v.Type() == zzPosType {
		return
	}
	switch v.Kind() {
	case reflect.Interface, reflect.Ptr:
		if v.IsNil() {
			sb.WriteString("nil")
			return
		}
		zzDump(v.Elem(), sb)
	case reflect.Struct:
		sb.WriteString(v.Type().Name() + "{")
		for i := 0; i < v.NumField(); i++ {
			if v.Field(i).Type() == zzPosType {
				continue
			}
			sb.WriteString(v.Type().Field(i).Name + ":")
			zzDump(v.Field(i), sb)
			sb.WriteString(",")
		}
		sb.WriteString("}")
	case reflect.Slice, reflect.Array:
		sb.WriteString("[")
		for i := 0; i < v.Len(); i++ {
			zzDump(v.Index(i), sb)
			sb.WriteString(",")
		}
		sb.WriteString("]")
	case reflect.Map:
		sb.WriteString(fmt.Sprintf("%v", v.Interface()))
	default:
		sb.WriteString(fmt.Sprintf("%#v", v.Interface()))
	}
}

func zzTree(m interface{}) string {
	var sb strings.Builder
	zzDump(reflect.ValueOf(m), &sb)
	return sb.String()
}

func zzParseCompact(src string) (interface{}, error) {
	toks, err := parser.NewLexer(src).Tokenize()
	if err != nil {
		return nil, err
	}
	return parser.NewParserWithSource(toks, src).Parse()
}

func zzParseExpanded(src string) (interface{}, error) {
	toks, err := parser.NewExpandedLexer(src).Tokenize()
	if err != nil {
		return nil, err
	}
	return parser.NewParserWithSource(toks, src).Parse()
}

func TestZZRoundTrip(t *testing.T) {
	var files []string
	filepath.Walk("../../examples", func(p string, info os.FileInfo, err error) error {
		if err == nil && strings.HasSuffix(p, ".glyph") {
			files = append(files, p)
		}
		return nil
	})
	bad := 0
	for _, f := range files {
		b, _ := os.ReadFile(f)
		src := string(b)
		orig, err := zzParseCompact(src)
		if err != nil {
			continue
		}
		exp := ExpandSource(src)
		back := CompactSource(exp)
		t2, err2 := zzParseCompact(back)
		t3, err3 := zzParseExpanded(exp)
		why := ""
		if err2 != nil {
			why = "compact(expand(x)) does not parse: " + strings.SplitN(err2.Error(), "\n", 2)[0]
		} else if zzTree(orig) != zzTree(t2) {
			why = "compact(expand(x)) parses to a different tree"
		} else if err3 != nil {
			why = "expanded text does not parse: " + strings.SplitN(err3.Error(), "\n", 2)[0]
		} else if zzTree(orig) != zzTree(t3) {
			why = "expanded text parses to a different tree"
		}
		if why != "" {
			bad++
			fmt.Printf("RT %s: %s\n", f, why)
		}
	}
	fmt.Printf("RT files=%d bad=%d\n", len(files), bad)
}
