package database

// Demonstration for C14 (ORM.Transaction): statements issued through the ORM with the
// callback's context must run on the transaction's connection, so that a rollback undoes them.
// Copy into /repo/pkg/database and run: go test -run TestZZTxDemo ./pkg/database/
// Before fix 'ORM calls made inside Transaction run on the transaction' the DELETE runs on the
// pool (inTx=false) and survives the rollback.

import (
	"context"
	"database/sql"
	"database/sql/driver"
	"errors"
	"sync"
	"testing"
)

type zzLog struct {
	mu  sync.Mutex
	ops []string
}

func (l *zzLog) add(s string) { l.mu.Lock(); l.ops = append(l.ops, s); l.mu.Unlock() }

type zzDriver struct{ log *zzLog }
type zzConn struct {
	log  *zzLog
	inTx bool
}
type zzTx struct{ c *zzConn }
type zzStmt struct {
	c *zzConn
	q string
}
type zzResult struct{}

func (zzResult) LastInsertId() (int64, error) { return 0, nil }
func (zzResult) RowsAffected() (int64, error) { return 1, nil }
func (d *zzDriver) Open(string) (driver.Conn, error) { return &zzConn{log: d.log}, nil }
func (c *zzConn) Prepare(q string) (driver.Stmt, error) { return &zzStmt{c, q}, nil }
func (c *zzConn) Close() error                          { return nil }
func (c *zzConn) Begin() (driver.Tx, error)             { c.inTx = true; c.log.add("begin"); return &zzTx{c}, nil }
func (t *zzTx) Commit() error                           { t.c.inTx = false; t.c.log.add("commit"); return nil }
func (t *zzTx) Rollback() error                         { t.c.inTx = false; t.c.log.add("rollback"); return nil }
func (s *zzStmt) Close() error                          { return nil }
func (s *zzStmt) NumInput() int                         { return -1 }
func (s *zzStmt) Exec([]driver.Value) (driver.Result, error) {
	if s.c.inTx {
		s.c.log.add("exec-in-tx")
	} else {
		s.c.log.add("exec-on-pool")
	}
	return zzResult{}, nil
}
func (s *zzStmt) Query([]driver.Value) (driver.Rows, error) { return nil, errors.New("unsupported") }

var zzOnce sync.Once
var zzTheLog = &zzLog{}

func TestZZTxDemo(t *testing.T) {
	zzOnce.Do(func() { sql.Register("zzfake", &zzDriver{log: zzTheLog}) })
	db, err := sql.Open("zzfake", "")
	if err != nil {
		t.Fatal(err)
	}
	pg := &PostgresDB{config: &Config{}, db: db}
	orm := NewORM(pg, "users")
	boom := errors.New("boom")
	err = orm.Transaction(context.Background(), func(ctx context.Context) error {
		if err := orm.Delete(ctx, 1); err != nil {
			return err
		}
		return boom
	})
	if err != boom {
		t.Fatalf("want boom, got %v", err)
	}
	for _, op := range zzTheLog.ops {
		if op == "exec-on-pool" {
			t.Fatalf("DELETE issued inside ORM.Transaction ran on the pool, outside the transaction, and survives the rollback: %v", zzTheLog.ops)
		}
	}
	t.Logf("ops: %v", zzTheLog.ops)
}
