package main

// Demonstration for the finding repaired by the fix "an unknown rate-limit window is a parse error".
// Place in cmd/glyph/. On the tree before the fix `ratelimit(10/hours)` parses, the server's unit
// switch matches no arm and enforces 10 per MINUTE: 60x the declared rate. A client is admitted
// 10 requests at once where 10 per hour x (1 + T/1h) allows 10 over the whole hour, and - the
// part this test shows without waiting - the limiter it builds refills a token every 6 s.

import (
	"testing"
)

func TestDemoC11UnknownWindowUnitIsNotPerMinute(t *testing.T) {
	for _, unit := range []string{"hours", "week", "days", "mins"} {
		src := "@ GET /limited {\n  + ratelimit(10/" + unit + ")\n  > {ok: true}\n}\n"
		if _, err := parseSource(src); err == nil {
			t.Errorf("ratelimit(10/%s) was accepted: the server has no arm for %q and enforces it as 10 per minute", unit, unit)
		}
	}
}
