package compiler

// Demonstration for C19: a semantic error inside a for-loop body reaches setupRoutes wrapped
// ("for loop body: %w"), IsSemanticError did a plain type assertion, so the edit was not rejected:
// the dev server replaced the good version by one whose route answers 500 on every request.
// Copy into /repo/pkg/compiler; go test -run TestZZWrappedSemanticError ./pkg/compiler/

import (
	"testing"

	"github.com/glyphlang/glyph/pkg/ast"
)

func TestZZWrappedSemanticError(t *testing.T) {
	lit := func(v int64) ast.Expr { return &ast.LiteralExpr{Value: ast.IntLiteral{Value: v}} }
	body := []ast.Statement{
		&ast.AssignStatement{Target: "items", Value: &ast.ArrayExpr{Elements: []ast.Expr{lit(1), lit(2)}}},
		&ast.ForStatement{ValueVar: "x", Iterable: &ast.VariableExpr{Name: "items"}, Body: []ast.Statement{
			&ast.AssignStatement{Target: "a", Value: lit(1)},
			&ast.AssignStatement{Target: "a", Value: lit(2)}, // redeclaration in the same scope
		}},
		&ast.ReturnStatement{Value: lit(0)},
	}
	_, err := NewCompiler().CompileRoute(&ast.Route{Path: "/t", Body: body})
	if err == nil {
		t.Fatal("expected a compile error")
	}
	if !IsSemanticError(err) {
		t.Fatalf("a redeclaration inside a for body is not recognised as a semantic error (%v): setupRoutes falls back to the interpreter and the broken edit replaces the running version", err)
	}
}
