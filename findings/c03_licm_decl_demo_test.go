package compiler

// Demonstration for the KNOWN finding C03-R3 licm-hoists-computation-not-declaration.
// Copy into /repo/pkg/compiler and run: go test -run TestZZLicmDeclaration ./pkg/compiler/
// O0 compiles and returns 1 (n=0) / 4 (n=2); O2 (OptAggressive) fails to compile with
// "cannot redeclare variable 't' in the same scope" because the loop body's `$ t = n*2` was moved
// into the enclosing scope, which already declares t.
// The repair (hoist `licm#k = n*2`, keep `$ t = licm#k` in the body) contradicts the existing
// TestOptimizer_LICM_Basic, which requires the hoisted statement to be the assignment to x itself
// and the body to shrink to one statement - so it is recorded, not repaired.

import (
	"fmt"
	"testing"

	"github.com/glyphlang/glyph/pkg/ast"
	"github.com/glyphlang/glyph/pkg/vm"
)

func zzRunLicm(level OptimizationLevel, body []ast.Statement, n int64) string {
	route := &ast.Route{Path: "/t/:n", Body: body}
	bc, err := NewCompilerWithOptLevel(level).CompileRoute(route)
	if err != nil {
		return "compile error: " + err.Error()
	}
	m := vm.NewVM()
	m.SetMaxSteps(100000)
	m.SetLocal("n", vm.IntValue{Val: n})
	res, err := m.Execute(bc)
	if err != nil {
		return "runtime error: " + err.Error()
	}
	return fmt.Sprintf("%T %v", res, res)
}

func TestZZLicmDeclaration(t *testing.T) {
	lit := func(v int64) ast.Expr { return &ast.LiteralExpr{Value: ast.IntLiteral{Value: v}} }
	v := func(n string) ast.Expr { return &ast.VariableExpr{Name: n} }
	prog := func() []ast.Statement {
		return []ast.Statement{
			&ast.AssignStatement{Target: "t", Value: lit(1)},
			&ast.AssignStatement{Target: "i", Value: v("n")},
			&ast.WhileStatement{
				Condition: &ast.BinaryOpExpr{Op: ast.Gt, Left: v("i"), Right: lit(0)},
				Body: []ast.Statement{
					&ast.AssignStatement{Target: "t", Value: &ast.BinaryOpExpr{Op: ast.Mul, Left: v("n"), Right: lit(2)}},
					&ast.ReassignStatement{Target: "i", Value: &ast.BinaryOpExpr{Op: ast.Sub, Left: v("i"), Right: lit(1)}},
				},
			},
			&ast.ReturnStatement{Value: v("t")},
		}
	}
	for _, n := range []int64{0, 2} {
		want := zzRunLicm(OptNone, prog(), n)
		for _, level := range []OptimizationLevel{OptBasic, OptAggressive} {
			if got := zzRunLicm(level, prog(), n); got != want {
				t.Errorf("n=%d level=%d: got %q, unoptimised gives %q", n, level, got, want)
			}
		}
	}
}
