package compiler

// Demonstration for C03: the handlers of one WebSocket route were optimised with one shared fact set.
// Copy into /repo/pkg/compiler; go test -run TestZZWsSharedOptimizer ./pkg/compiler/
// `on connect { room = "lobby" }` then `on message { $ r = room }`: the message handler compiled at
// OptBasic must read the route parameter, not the constant the connect handler assigned.

import (
	"bytes"
	"testing"

	"github.com/glyphlang/glyph/pkg/ast"
)

func TestZZWsSharedOptimizer(t *testing.T) {
	message := func() ast.WebSocketEvent {
		return ast.WebSocketEvent{EventType: ast.WSEventMessage, Body: []ast.Statement{
			&ast.AssignStatement{Target: "r", Value: &ast.VariableExpr{Name: "room"}},
		}}
	}
	connect := ast.WebSocketEvent{EventType: ast.WSEventConnect, Body: []ast.Statement{
		&ast.ReassignStatement{Target: "room", Value: &ast.LiteralExpr{Value: ast.StringLiteral{Value: "lobby"}}},
	}}
	alone, err := NewCompilerWithOptLevel(OptBasic).CompileWebSocketRoute(&ast.WebSocketRoute{Path: "/chat/:room", Events: []ast.WebSocketEvent{message()}})
	if err != nil {
		t.Fatal(err)
	}
	both, err := NewCompilerWithOptLevel(OptBasic).CompileWebSocketRoute(&ast.WebSocketRoute{Path: "/chat/:room", Events: []ast.WebSocketEvent{connect, message()}})
	if err != nil {
		t.Fatal(err)
	}
	if !bytes.Equal(alone.OnMessage, both.OnMessage) {
		t.Fatalf("the message handler's bytecode depends on the connect handler compiled before it:\nalone: %x\nafter connect: %x", alone.OnMessage, both.OnMessage)
	}
}
