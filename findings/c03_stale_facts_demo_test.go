package compiler

import (
	"fmt"
	"testing"

	"github.com/glyphlang/glyph/pkg/ast"
	"github.com/glyphlang/glyph/pkg/vm"
)

func zzRun2(level OptimizationLevel, body []ast.Statement, n int64) string {
	route := &ast.Route{Path: "/t/:n", Body: body}
	bc, err := NewCompilerWithOptLevel(level).CompileRoute(route)
	if err != nil {
		return "compile error: " + err.Error()
	}
	m := vm.NewVM()
	m.SetMaxSteps(100000)
	m.SetLocal("n", vm.IntValue{Val: n})
	m.SetLocal("b", vm.IntValue{Val: 100})
	res, err := m.Execute(bc)
	if err != nil {
		return "runtime error: " + err.Error()
	}
	return fmt.Sprintf("%T %v", res, res)
}

func zl(v int64) ast.Expr         { return &ast.LiteralExpr{Value: ast.IntLiteral{Value: v}} }
func zv(n string) ast.Expr        { return &ast.VariableExpr{Name: n} }
func zadd(a, b ast.Expr) ast.Expr { return &ast.BinaryOpExpr{Op: ast.Add, Left: a, Right: b} }

func TestZZStaleCopy(t *testing.T) {
	prog := func() []ast.Statement {
		return []ast.Statement{
			&ast.AssignStatement{Target: "x", Value: zadd(zv("n"), zl(1))},
			&ast.AssignStatement{Target: "y", Value: zv("x")},
			&ast.ReassignStatement{Target: "x", Value: zadd(zv("n"), zl(50))},
			&ast.ReturnStatement{Value: zv("y")},
		}
	}
	want := zzRun2(OptNone, prog(), 7)
	for _, level := range []OptimizationLevel{OptBasic, OptAggressive} {
		if got := zzRun2(level, prog(), 7); got != want {
			t.Errorf("copy: level=%d: got %q, unoptimised gives %q", level, got, want)
		}
	}
}

func TestZZStaleCSE(t *testing.T) {
	prog := func() []ast.Statement {
		return []ast.Statement{
			&ast.AssignStatement{Target: "a", Value: &ast.BinaryOpExpr{Op: ast.Mul, Left: zv("n"), Right: zl(3)}},
			&ast.AssignStatement{Target: "t", Value: zadd(zv("a"), zv("n"))},
			&ast.ReassignStatement{Target: "a", Value: zadd(zv("n"), zl(10))},
			&ast.AssignStatement{Target: "u", Value: zadd(zv("a"), zv("n"))},
			&ast.ReturnStatement{Value: zv("u")},
		}
	}
	want := zzRun2(OptNone, prog(), 7)
	for _, level := range []OptimizationLevel{OptBasic, OptAggressive} {
		if got := zzRun2(level, prog(), 7); got != want {
			t.Errorf("cse: level=%d: got %q, unoptimised gives %q", level, got, want)
		}
	}
}

func TestZZStaleCSEHolder(t *testing.T) {
	// t holds a+b; t is reassigned; u = a+b must not become u = t
	prog := func() []ast.Statement {
		return []ast.Statement{
			&ast.AssignStatement{Target: "a", Value: &ast.BinaryOpExpr{Op: ast.Mul, Left: zv("n"), Right: zl(3)}},
			&ast.AssignStatement{Target: "t", Value: zadd(zv("a"), zv("n"))},
			&ast.ReassignStatement{Target: "t", Value: zadd(zv("n"), zl(1000))},
			&ast.AssignStatement{Target: "u", Value: zadd(zv("a"), zv("n"))},
			&ast.ReturnStatement{Value: zv("u")},
		}
	}
	want := zzRun2(OptNone, prog(), 7)
	for _, level := range []OptimizationLevel{OptBasic, OptAggressive} {
		if got := zzRun2(level, prog(), 7); got != want {
			t.Errorf("cse-holder: level=%d: got %q, unoptimised gives %q", level, got, want)
		}
	}
}
