#!/bin/bash
# Builds the analyser offline and warms the export-data cache go/packages needs.
set -e
cd /verif
export GOFLAGS=-mod=mod GOPROXY=off GOSUMDB=off GOTOOLCHAIN=local GOWORK=off
export PATH=/opt/veriftools/go1.26.8/bin:$PATH
mkdir -p bin evidence
(cd checker && go build -o /verif/bin/glyphverif .)
# warm: one load of /repo (compiles export data for dependencies; ~1-2 min cold)
(cd /repo && go list -export -deps ./... >/dev/null 2>&1 || true)
echo setup ok
